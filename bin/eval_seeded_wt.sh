#!/bin/bash
# like eval_seeded.sh but applies the patch in the scratch worktree /tmp/wt_verify and points the checks at it through PYTHONPATH
# (does not touch /repo: usable while long runs on /repo are in progress). Evidence files ARE overwritten: re-run on /repo before committing.
D=$1; shift
cd "$(dirname "$0")/.."
W=/tmp/wt_verify
[ -d $W ] || git -C /repo worktree add -q --detach $W HEAD   # scratch worktree, removed again with: git -C /repo worktree remove --force $W
git -C $W checkout -q -- . && git -C $W clean -fdq
git -C $W apply "$(realpath $D/patch.diff)" || { echo "patch does not apply"; exit 3; }
for id in "$@"; do
  out=$(PYTHONPATH=$W/src VERIF_NO_SX=${VERIF_NO_SX:-0} ./check $id quick 2>&1); rc=$?
  echo "== $D :: $id exit=$rc"; echo "$out" | grep -E "counterexample|INCONCLUSIVE|HARNESS" | head -3 | cut -c1-260
done
git -C $W checkout -q -- . && git -C $W clean -fdq
