#!/bin/bash
# usage: confirm_seeded.sh <dir with patch.diff demo.py>   -> prints tests/demo outcomes with and without the patch (in /tmp/wt_verify)
D=$(realpath $1); W=/tmp/wt_verify
[ -d $W ] || git -C /repo worktree add -q --detach $W HEAD   # scratch worktree, removed again with: git -C /repo worktree remove --force $W
cd $W && git checkout -q -- . && git clean -fdq
PYTHONPATH=$W/src /venv/bin/python $D/demo.py >/dev/null 2>&1; echo "demo clean exit=$?"
git apply --check $D/patch.diff || { echo "PATCH DOES NOT APPLY"; exit 1; }
git apply $D/patch.diff
PYTHONPATH=$W/src /venv/bin/python $D/demo.py >/dev/null 2>&1; echo "demo patched exit=$?"
T=$(mktemp -d); PYTHONPATH=$W/src HYPOTHESIS_STORAGE_DIRECTORY=$T /venv/bin/python -m pytest -q -p no:cacheprovider 2>&1 | tail -1; rm -rf $T
git checkout -q -- . && git clean -fdq
