#!/usr/bin/env python3
"""Regenerate MANIFEST.json from vf/manifest_data.py (single source of truth for per-check texts)."""
import json, sys
from pathlib import Path
ROOT = Path(__file__).resolve().parent.parent
sys.path.insert(0, str(ROOT))
from vf.manifest_data import CHECKS, NOT_APPLICABLE, ENGINES, NOTES

props = [json.loads(l)['id'] for l in (ROOT / 'properties.jsonl').read_text().splitlines() if l.strip()]
checks = []
for pid in props:
    if pid in CHECKS:
        c = CHECKS[pid]
        checks.append({
            'property_id': pid,
            'quick_cmd': f'./check {pid} quick',
            'thorough_cmd': f'./check {pid} thorough',
            'evidence_file': f'/verif/evidence/{pid}.json',
            'replay_cmd_template': './check --replay {path}',
            'engine': c['engine'],
            'level_claimed': {'category': c['category'], 'text': c['text'], 'design_ref': c['design_ref']},
            'level_note': c['note'],
            'technique': c['technique'],
        })
na = [{'property_id': p, 'reason': NOT_APPLICABLE.get(p, 'check not built yet in this round (planned, see DESIGN.md section 4)')}
      for p in props if p not in CHECKS]
m = {
    'version': 1,
    'setup_cmd': './bin/setup.sh',
    'hooks': {
        'guard': 'HPL_SPECS_VERIF',
        'enable': 'no source hooks: all instrumentation is run-time wrapping from /verif/vf; the guard name is reserved and exported by ./check',
        'baseline_off_cmd': 'cd /repo && /venv/bin/python -m pytest -ra -q -p no:cacheprovider --timeout=900 --continue-on-collection-errors',
        'source_commits': [],
        'add_only': True,
    },
    'engines': ENGINES,
    'checks': checks,
    'notes': NOTES,
    'not_applicable': na,
}
(ROOT / 'MANIFEST.json').write_text(json.dumps(m, indent=1) + '\n')
print('checks:', [c['property_id'] for c in checks], 'n/a:', [x['property_id'] for x in na])
