#!/bin/bash
# run every check's quick (or thorough) command on the current tree; print one line per property
TIER=${1:-quick}
cd "$(dirname "$0")/.."
for id in $(python3 -c "import json;print(' '.join(c['property_id'] for c in json.load(open('MANIFEST.json'))['checks']))"); do
  s=$(date +%s)
  out=$(./check $id $TIER 2>&1); rc=$?
  e=$(date +%s)
  echo "$id exit=$rc $((e-s))s :: $(echo "$out" | grep -E "^\[$id\]" | cut -c1-220)"
  if [ $rc -ne 0 ]; then echo "$out" | grep -E "VIOLATION|INCONCLUSIVE|HARNESS" | head -5; fi
done
