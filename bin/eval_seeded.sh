#!/bin/bash
# usage: bin/eval_seeded.sh <seeded-dir> [ID ...]   apply seeded/<dir>/patch.diff to /repo, run the listed checks (default: the one in meta.json), restore
D=$1; shift
cd "$(dirname "$0")/.."
IDS="$@"
[ -z "$IDS" ] && IDS=$(python3 -c "import json,sys;print(json.load(open('$D/meta.json'))['property'])")
git -C /repo apply --check "$(realpath $D/patch.diff)" || { echo "patch does not apply"; exit 3; }
git -C /repo apply "$(realpath $D/patch.diff)"
for id in $IDS; do
  out=$(VERIF_NO_SX=${VERIF_NO_SX:-0} ./check $id quick 2>&1); rc=$?
  echo "== $D :: $id exit=$rc"; echo "$out" | grep -E "counterexample|VIOLATION|INCONCLUSIVE" | head -4 | cut -c1-300
done
git -C /repo checkout -- .
