#!/bin/bash
# Build the overlay venv /verif/.venv (offline, idempotent): /venv's python + site-packages
# (hpl editable install, lark, attrs 24.3.0, typeguard) plus CrossHair/z3/cvc5 from the wheelhouse.
set -e
HERE="$(cd "$(dirname "${BASH_SOURCE[0]}")/.." && pwd)"
V="$HERE/.venv"
STAMP="$V/.ok"
if [ -f "$STAMP" ] && "$V/bin/python" -c "import z3, crosshair, hpl, lark" 2>/dev/null; then
  exit 0
fi
# serialise concurrent builders
exec 9>"$HERE/.venv.lock"
flock 9
if [ -f "$STAMP" ] && "$V/bin/python" -c "import z3, crosshair, hpl, lark" 2>/dev/null; then
  exit 0
fi
rm -rf "$V"
/venv/bin/python -m venv "$V"
echo "import site; site.addsitedir('/venv/lib/python3.12/site-packages')" > "$V/lib/python3.12/site-packages/_base.pth"
PIP_NO_INDEX=1 "$V/bin/pip" install -q --no-index --no-deps --find-links /opt/veriftools/wheels \
  crosshair-tool z3-solver cvc5 typeshed-client typing-inspect mypy-extensions importlib_metadata zipp jsonschema jsonschema-specifications referencing rpds-py >/dev/null
"$V/bin/python" -c "import z3, crosshair, hpl, lark, attrs; assert attrs.__version__.startswith('24.'), attrs.__version__"
touch "$STAMP"
