#!/bin/bash
# run the repository's test suite without touching /repo/.hypothesis (its example database would otherwise
# remember a randomly found failing example of the suite's own flaky generator and replay it forever)
D=$(mktemp -d)
cd /repo && HYPOTHESIS_STORAGE_DIRECTORY=$D /venv/bin/python -m pytest -q -p no:cacheprovider "$@" 2>&1 | tail -3
rm -rf "$D"
