#!/bin/bash
# usage: bin/regress.sh <PROPERTY-ID> <diff...>   — apply each diff in reverse (=-R) or forward (seeded) to /repo, run quick check, restore
# Reverse-applies fix diffs (regress/fix-*.diff) / forward-applies seeded patches (seeded/*/patch.diff).
PID=$1; shift
for d in "$@"; do
  if [[ "$d" == *regress/fix-* ]]; then MODE="-R"; else MODE=""; fi
  if ! git -C /repo apply $MODE --check "$(realpath $d)" 2>/dev/null; then echo "SKIP $d (does not apply)"; continue; fi
  git -C /repo apply $MODE "$(realpath $d)"
  out=$(VERIF_NO_SX=${VERIF_NO_SX:-0} /verif/check $PID quick 2>&1); rc=$?
  git -C /repo checkout -- . 
  echo "== $d -> exit $rc"; echo "$out" | grep -E "VIOLATION|INCONCLUSIVE|HARNESS" | head -4
done
