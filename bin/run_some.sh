#!/bin/bash
# usage: bin/run_some.sh <tier> <ID>...
TIER=$1; shift
cd "$(dirname "$0")/.."
for id in "$@"; do
  s=$(date +%s)
  out=$(./check $id $TIER 2>&1); rc=$?
  e=$(date +%s)
  echo "$id exit=$rc $((e-s))s :: $(echo "$out" | grep -E "^\[$id\]" | cut -c1-220)"
  if [ $rc -ne 0 ]; then echo "$out" | grep -E "VIOLATION|INCONCLUSIVE|HARNESS|counterexample" | head -6 | cut -c1-300; fi
done
