#!/bin/bash
# negative control: apply a behaviour-preserving refactoring in the scratch worktree /tmp/wt_verify, run the given quick checks against it
# (PYTHONPATH), expect exit 0 from every one. usage: bin/eval_control_wt.sh controls/<dir> <ID>...
D=$1; shift
cd "$(dirname "$0")/.."
W=/tmp/wt_verify
[ -d $W ] || git -C /repo worktree add -q --detach $W HEAD   # scratch worktree, removed again with: git -C /repo worktree remove --force $W
git -C $W checkout -q -- . && git -C $W clean -fdq
git -C $W apply "$(realpath $D/patch.diff)" || { echo "patch does not apply"; exit 3; }
T=$(mktemp -d); (cd $W && PYTHONPATH=$W/src HYPOTHESIS_STORAGE_DIRECTORY=$T /venv/bin/python -m pytest -q -p no:cacheprovider 2>&1 | tail -1); rm -rf $T
for id in "$@"; do
  out=$(PYTHONPATH=$W/src VERIF_NO_SX=${VERIF_NO_SX:-0} ./check $id quick 2>&1); rc=$?
  echo "== $D :: $id exit=$rc"; [ $rc -ne 0 ] && echo "$out" | grep -E "counterexample|INCONCLUSIVE|HARNESS|undecided|Traceback|Error" | head -6 | cut -c1-300
done
git -C $W checkout -q -- . && git -C $W clean -fdq
