"""SP engine: symbolic *names* through the real code.

A SymName is a `str` subclass whose identity is a z3 Int term; `==`, `!=`, `in`, set/dict operations fork on
z3-feasible (in)equalities (all SymNames hash alike, so containers fall back on `==`). The decision-list explorer
of vf.sf re-executes the harness for every feasible decision sequence in plain Python (about a millisecond per
path instead of CrossHair's second), so every coincidence pattern of alias / variable / channel names is covered.
A SymTok is the '@name' token of a variable reference whose name is symbolic.

Translator validation: every explored path is re-run with the concrete names of its z3 model on the real code
(real `str` objects) and must give the same outcome; a mismatch is a harness error (exit 2), never a verdict.
"""
from __future__ import annotations

from typing import Any, Callable, Dict, List, Tuple

import z3

from vf import sf

_INTERN: Dict[str, int] = {}


def _const_id(s: str) -> int:
    if s not in _INTERN:
        _INTERN[s] = 1000 + len(_INTERN)
    return _INTERN[s]


def _fork(cond) -> bool:
    ctx = sf._CTX[-1]
    cond = z3.simplify(cond)
    if z3.is_true(cond):
        return True
    if z3.is_false(cond):
        return False
    if ctx.pos < len(ctx.decisions):
        d = ctx.decisions[ctx.pos]
    else:
        d = True if ctx.feasible(cond) else False
        ctx.decisions.append(d)
    ctx.pos += 1
    ctx.pc.append(cond if d else z3.Not(cond))
    return d


class SymName(str):
    def __new__(cls, term, label: str):
        obj = str.__new__(cls, label)
        obj.t = term
        return obj

    @staticmethod
    def term_of(o):
        if isinstance(o, SymName):
            return o.t
        if isinstance(o, str):
            return z3.IntVal(_const_id(o))
        return None

    def __eq__(self, o):
        t = SymName.term_of(o)
        if t is None:
            return False
        if not sf._CTX:
            return str.__eq__(self, o)
        return _fork(self.t == t)

    def __ne__(self, o):
        return not self.__eq__(o)

    def __hash__(self):
        return 0

    def __bool__(self):
        return True


class SymTok(str):
    """'@' + symbolic name"""

    def __new__(cls, name: SymName):
        obj = str.__new__(cls, '@' + str.__str__(name))
        obj.name_ = name
        return obj

    def __getitem__(self, k):
        if isinstance(k, slice) and k.start == 1 and k.stop is None and k.step is None:
            return self.name_
        return str.__getitem__(self, k)

    def __eq__(self, o):
        if isinstance(o, SymTok):
            return self.name_ == o.name_
        if isinstance(o, str) and o.startswith('@'):
            return self.name_ == o[1:]
        return False

    def __ne__(self, o):
        return not self.__eq__(o)

    def __hash__(self):
        return 1


def names(n: int, prefix: str = 'n') -> List[SymName]:
    return [SymName(z3.Int(f'{prefix}{i}'), f'{prefix}{i}') for i in range(n)]


def concretise(model, syms: List[SymName]) -> Dict[str, str]:
    """z3 model -> concrete distinct/equal real strings for each symbolic name (by label)"""
    ids: Dict[int, str] = {}
    out = {}
    letters = 'ABCDEFGHJKLMNPQRSTUVWXYZ'
    rev = {v: k for k, v in _INTERN.items()}
    for s in syms:
        v = model.eval(s.t, model_completion=True).as_long()
        if v in rev:
            out[str.__str__(s)] = rev[v]
            continue
        if v not in ids:
            ids[v] = letters[len(ids) % len(letters)] + ('' if len(ids) < len(letters) else str(len(ids)))
        out[str.__str__(s)] = ids[v]
    return out


def explore(fn: Callable[[], Any]) -> Tuple[List[Tuple[Any, Any]], Any]:
    """run fn under every feasible decision sequence: [(path condition, ('ret', value) | ('raise', class name))]"""
    return sf.explore(fn, 0)


def model_of(pc):
    s = z3.Solver()
    s.add(pc)
    if s.check() != z3.sat:
        return None
    return s.model()


class SymInt(int):
    """an int whose value is a z3 Int term; comparisons fork (enough for bounds checks; no arithmetic)"""

    def __new__(cls, term, label: int = 0):
        obj = int.__new__(cls, label)
        obj.t = term
        return obj

    @staticmethod
    def term_of(o):
        if isinstance(o, SymInt):
            return o.t
        if isinstance(o, bool):
            return None
        if isinstance(o, int):
            return z3.IntVal(o)
        if isinstance(o, float) and o == int(o):
            return z3.IntVal(int(o))
        if isinstance(o, float):
            return z3.RealVal(str(o))
        return None

    def _cmp(self, o, f):
        t = SymInt.term_of(o)
        if t is None:
            return NotImplemented
        return _fork(f(self.t, t))

    def __lt__(self, o):
        return self._cmp(o, lambda a, b: a < b)

    def __le__(self, o):
        return self._cmp(o, lambda a, b: a <= b)

    def __gt__(self, o):
        return self._cmp(o, lambda a, b: a > b)

    def __ge__(self, o):
        return self._cmp(o, lambda a, b: a >= b)

    def __eq__(self, o):
        r = self._cmp(o, lambda a, b: a == b)
        return False if r is NotImplemented else r

    def __ne__(self, o):
        return not self.__eq__(o)

    def __hash__(self):
        return 0

    def __repr__(self):
        return f'<int {self.t}>'

    __str__ = __repr__
