"""Node-level type lemmas with SYMBOLIC type sets (SF engine through the real AST constructors).

Leaves are real reference nodes (HplVarReference / HplFieldAccess) whose stored type set is a 7-bit z3 term; the real
constructors / parser callbacks / cast() / but() then run on them (every feasible path), so each lemma is decided
for ALL combinations of leaf type sets:

  sound      (C05)  if construction succeeds, every child had a possible type inside its parameter type
  complete   (C04)  if every child has a possible type inside its parameter type (jointly, for unified operands) it succeeds
  exact      (C03)  result carries the declared type; stored children carry exactly  child /\\ parameter (/\\ sibling)
  pure       (C16)  the child objects handed in keep their type sets

The signature table below is RE-STATED from the language documentation, not imported from hpl.
"""
from __future__ import annotations

from typing import Any, Callable, Dict, List, Optional, Tuple

import z3

from vf import sf

W = 7
BOOL, NUMBER, STRING, ARRAY, RANGE, SET, MESSAGE = (1 << i for i in range(7))
PRIMITIVE = BOOL | NUMBER | STRING
ITEM = PRIMITIVE | MESSAGE
COMPOUND = ARRAY | RANGE | SET
ANY = 127
ACCESS_DEFAULT = ITEM | ARRAY

UNARY = {'-': (NUMBER, NUMBER), 'not': (BOOL, BOOL)}
BINARY = {
    '+': (NUMBER, NUMBER, NUMBER), '-': (NUMBER, NUMBER, NUMBER), '*': (NUMBER, NUMBER, NUMBER), '/': (NUMBER, NUMBER, NUMBER), '**': (NUMBER, NUMBER, NUMBER),
    'implies': (BOOL, BOOL, BOOL), 'iff': (BOOL, BOOL, BOOL), 'or': (BOOL, BOOL, BOOL), 'and': (BOOL, BOOL, BOOL),
    '=': (PRIMITIVE, PRIMITIVE, BOOL), '!=': (PRIMITIVE, PRIMITIVE, BOOL),
    '<': (NUMBER, NUMBER, BOOL), '<=': (NUMBER, NUMBER, BOOL), '>': (NUMBER, NUMBER, BOOL), '>=': (NUMBER, NUMBER, BOOL),
    'in': (PRIMITIVE, COMPOUND, BOOL),
}
FUNCTIONS = {
    'abs': [((NUMBER,), None, NUMBER)], 'bool': [((PRIMITIVE,), None, BOOL)], 'int': [((PRIMITIVE,), None, NUMBER)],
    'float': [((PRIMITIVE,), None, NUMBER)], 'str': [((PRIMITIVE,), None, STRING)], 'len': [((COMPOUND,), None, NUMBER)],
    'sum': [((COMPOUND,), None, NUMBER)], 'prod': [((COMPOUND,), None, NUMBER)], 'sqrt': [((NUMBER,), None, NUMBER)],
    'ceil': [((NUMBER,), None, NUMBER)], 'floor': [((NUMBER,), None, NUMBER)], 'log': [((NUMBER, NUMBER), None, NUMBER)],
    'sin': [((NUMBER,), None, NUMBER)], 'cos': [((NUMBER,), None, NUMBER)], 'tan': [((NUMBER,), None, NUMBER)],
    'asin': [((NUMBER,), None, NUMBER)], 'acos': [((NUMBER,), None, NUMBER)], 'atan': [((NUMBER,), None, NUMBER)],
    'atan2': [((NUMBER, NUMBER), None, NUMBER)], 'deg': [((NUMBER,), None, NUMBER)], 'rad': [((NUMBER,), None, NUMBER)],
    'max': [((COMPOUND,), None, NUMBER), ((NUMBER, NUMBER), NUMBER, NUMBER)], 'min': [((COMPOUND,), None, NUMBER), ((NUMBER, NUMBER), NUMBER, NUMBER)],
    'gcd': [((COMPOUND,), None, NUMBER), ((NUMBER, NUMBER), NUMBER, NUMBER)],
    'roll': [((MESSAGE,), None, NUMBER), ((NUMBER,) * 4, None, NUMBER)], 'pitch': [((MESSAGE,), None, NUMBER), ((NUMBER,) * 4, None, NUMBER)],
    'yaw': [((MESSAGE,), None, NUMBER), ((NUMBER,) * 4, None, NUMBER)],
}


def bv(v: int):
    return z3.BitVecVal(v, W)


def nonempty(t):
    return t != bv(0)


def subset(x, y):
    return (x & ~y) == bv(0)


class Form:
    """one way of building a parent node from n leaves"""

    def __init__(self, name: str, n: int, build: Callable[[List[Any]], Any], params: List[int], result: Optional[int],
                 unify: Tuple[int, ...] = (), children: Optional[Callable[[Any], List[Any]]] = None, narrows: bool = True,
                 route: str = 'ctor', accept: Optional[Callable[[List[Any]], Any]] = None, leaf_kinds: Optional[List[str]] = None):
        self.name, self.n, self.build, self.params, self.result = name, n, build, params, result
        self.unify = unify  # indices of children whose type sets are unified with each other
        self.children = children  # parent -> stored children (same order as leaves)
        self.narrows = narrows  # stored children are narrowed to the parameter type
        self.route = route
        self.accept = accept  # custom acceptance condition over leaf terms (overloads)
        self.leaf_kinds = leaf_kinds or ['field'] * n


def leaf(kind: str, term):
    from hpl.ast.expressions import HplFieldAccess, HplThisMessage, HplVarReference
    if kind == 'var':
        return HplVarReference('@v', data_type=sf.SymFlag(term))
    return HplFieldAccess(HplThisMessage(), 'f', data_type=sf.SymFlag(term))


LEAF_DEFAULT = {'var': ITEM, 'field': ACCESS_DEFAULT}


def forms() -> List[Form]:
    from hpl.ast.expressions import (HplArrayAccess, HplBinaryOperator, HplFieldAccess, HplFunctionCall, HplQuantifier, HplRange, HplSet,
                                     HplUnaryOperator, HplVarReference, HplLiteral)
    from vf import gen
    T = gen.transformer()
    F: List[Form] = []
    for op, (p, r) in UNARY.items():
        F.append(Form(f'ctor:unary {op}', 1, (lambda op: lambda L: HplUnaryOperator(op, L[0]))(op), [p], r, children=lambda e: [e.operand]))
        cb = T.negation if op == 'not' else T.negative_number
        F.append(Form(f'callback:unary {op}', 1, (lambda op, cb: lambda L: cb(op, L[0]))(op, cb), [p], r, children=lambda e: [e.operand], route='callback'))
    for op, (p1, p2, r) in BINARY.items():
        uni = (0, 1) if (p1 & p2) else ()
        F.append(Form(f'ctor:binary {op}', 2, (lambda op: lambda L: HplBinaryOperator(op, L[0], L[1]))(op), [p1, p2], r, unify=uni,
                      children=lambda e: [e.operand1, e.operand2]))
        lvl = gen.LEVEL[op]
        F.append(Form(f'callback:binary {op}', 2, (lambda op, lvl: lambda L: getattr(T, lvl)([L[0], op, L[1]]))(op, lvl), [p1, p2], r, unify=uni,
                      children=lambda e: [e.operand1, e.operand2], route='callback'))
    for n in (1, 2, 3):
        F.append(Form(f'ctor:set/{n}', n, lambda L: HplSet(tuple(L)), [PRIMITIVE] * n, SET, children=lambda e: list(e.values)))
        F.append(Form(f'callback:set/{n}', n, lambda L: T.enum_literal(list(L)), [PRIMITIVE] * n, SET, children=lambda e: list(e.values), route='callback'))
    F.append(Form('ctor:range', 2, lambda L: HplRange(L[0], L[1]), [NUMBER, NUMBER], RANGE, children=lambda e: [e.min_value, e.max_value]))
    F.append(Form('callback:range', 2, lambda L: T.range_literal('[', L[0], L[1], ']!'), [NUMBER, NUMBER], RANGE, children=lambda e: [e.min_value, e.max_value], route='callback'))
    F.append(Form('ctor:field access', 1, lambda L: HplFieldAccess(L[0], 'g'), [MESSAGE], ACCESS_DEFAULT, children=lambda e: [e.message]))
    F.append(Form('callback:field access', 1, lambda L: T.field_access(L[0], 'g'), [MESSAGE], ACCESS_DEFAULT, children=lambda e: [e.message], route='callback'))
    F.append(Form('ctor:array access', 2, lambda L: HplArrayAccess(L[0], L[1]), [ARRAY, NUMBER], ACCESS_DEFAULT, children=lambda e: [e.array, e.index]))
    F.append(Form('callback:array access', 2, lambda L: T.array_access(L[0], L[1]), [ARRAY, NUMBER], ACCESS_DEFAULT, children=lambda e: [e.array, e.index], route='callback'))

    def qbuild(q):
        def b(L):
            # domain = leaf 0; the body uses the quantified variable in a comparison with leaf 1
            body = T.atomic_condition([HplVarReference('@q'), '=', L[1]])  # callbacks cast (copy) before wrapping
            return HplQuantifier(q, 'q', L[0], body)
        return b
    for q in ('forall', 'exists'):
        F.append(Form(f'ctor:{q} domain', 2, qbuild(q), [COMPOUND, PRIMITIVE], BOOL, children=lambda e: [e.domain, e.condition.operand2]))
        F.append(Form(f'ctor:{q} condition', 1, (lambda q: lambda L: HplQuantifier(q, 'q', HplSet((HplLiteral('1', 1),)),
                      T.disjunction([HplBinaryOperator('=', HplVarReference('@q'), HplLiteral('1', 1)), 'or', L[0]])))(q), [BOOL], BOOL,
                      children=lambda e: [e.condition.operand2]))
    for f, overloads in FUNCTIONS.items():
        arities = sorted({len(ps) for ps, var, r in overloads} | ({3, 4, 5} if any(var for _, var, _ in overloads) else set()))
        for n in arities:
            def accept(f=f, n=n, overloads=overloads):
                def acc(terms):
                    alts = []
                    for ps, var, r in overloads:
                        if len(ps) > n or (len(ps) < n and var is None):
                            continue
                        conj = [nonempty(terms[i] & bv(ps[i])) for i in range(len(ps))]
                        conj += [nonempty(terms[i] & bv(var)) for i in range(len(ps), n)]
                        alts.append(z3.And(*conj) if conj else z3.BoolVal(True))
                    return z3.Or(*alts) if alts else z3.BoolVal(False)
                return acc
            params = None
            for ps, var, r in overloads:
                if len(ps) == n or (var is not None and len(ps) <= n):
                    params = list(ps) + [var] * (n - len(ps))
            res = overloads[0][2]
            F.append(Form(f'ctor:call {f}/{n}', n, (lambda f: lambda L: HplFunctionCall(f, tuple(L)))(f), params or [ANY] * n, res,
                          children=lambda e: list(e.arguments), narrows=True, accept=accept()))
            if n == 1:
                F.append(Form(f'callback:call {f}/1', 1, (lambda f: lambda L: T.function_call(f, L[0]))(f), params or [ANY], res,
                              children=lambda e: list(e.arguments), narrows=True, accept=accept(), route='callback'))
    return F


class LemmaResult:
    def __init__(self, form: Form):
        self.form = form
        self.paths = 0
        self.queries = 0
        self.solver_s = 0.0
        self.failures: Dict[str, Any] = {}  # lemma -> model values (list of ints)
        self.unknown: List[str] = []


def run_form(form: Form, lemmas=('sound', 'complete', 'exact', 'pure')) -> LemmaResult:
    res = LemmaResult(form)
    terms = [z3.BitVec(f'm{i}', W) for i in range(form.n)]
    pre = []
    for t, k in zip(terms, form.leaf_kinds):
        pre += [nonempty(t), subset(t, bv(LEAF_DEFAULT[k]))]
    leaves: List[Any] = []

    def fn():
        leaves.clear()
        for t, k in zip(terms, form.leaf_kinds):
            leaves.append(leaf(k, t))
        parent = form.build(list(leaves))
        stored = form.children(parent) if form.children else []
        return (parent, list(leaves), stored)

    paths, ctx = sf.explore(fn, W, pre)
    res.paths, res.queries, res.solver_s = len(paths), ctx.queries, ctx.solver_s
    # acceptance condition re-stated
    if form.accept is not None:
        acc = form.accept(terms)
    else:
        conj = [nonempty(t & bv(p)) for t, p in zip(terms, form.params)]
        if form.unify:
            joint = bv(ANY)
            for i in form.unify:
                joint = joint & terms[i] & bv(form.params[i])
            conj.append(nonempty(joint))
        acc = z3.And(*conj)
    for pc, (kind, val) in paths:
        claims = {}
        if kind == 'raise':
            if val != 'TypeError':
                claims['only-TypeError'] = z3.BoolVal(False)
            claims['complete'] = z3.Not(acc)  # a raise is only allowed when some child is incompatible
        else:
            parent, lv, stored = val
            claims['sound'] = acc
            ex = []
            if form.children and len(stored) != len(terms):
                ex.append(z3.BoolVal(False))  # a child was dropped or duplicated
            if form.result is not None:
                ex.append(_t(parent.data_type) == bv(form.result))
            if form.children and form.narrows:
                for i, (s, t, p) in enumerate(zip(stored, terms, form.params)):
                    want = t & bv(p)
                    if i in form.unify:
                        for j in form.unify:
                            want = want & terms[j] & bv(form.params[j])
                    ex.append(_t(s.data_type) == want)
            elif form.children:
                for s, t in zip(stored, terms):
                    ex.append(_t(s.data_type) == t)
            claims['exact'] = z3.And(*ex) if ex else z3.BoolVal(True)
            claims['pure'] = z3.And(*[_t(l.data_type) == t for l, t in zip(lv, terms)])
        for name, claim in claims.items():
            if name not in lemmas and name != 'only-TypeError':
                continue
            v, m, dt = sf.valid(claim, pre + [pc])
            res.queries += 1
            res.solver_s += dt
            if v == 'sat' and name not in res.failures:
                res.failures[name] = [m.eval(t, model_completion=True).as_long() for t in terms]
            elif v == 'unknown':
                res.unknown.append(f'{form.name}:{name}')
    return res


def _t(x):
    if isinstance(x, sf.SymFlag):
        return x.t
    return bv(x.value)


def concrete_replay(form: Form, masks: List[int], lemma: str) -> Optional[str]:
    """re-run a failing lemma on the real code with REAL DataType masks; returns a description if it reproduces"""
    from hpl.ast.expressions import HplFieldAccess, HplThisMessage, HplVarReference
    from hpl.types import DataType
    lv = []
    for m, k in zip(masks, form.leaf_kinds):
        if k == 'var':
            lv.append(HplVarReference('@v', data_type=DataType(m)))
        else:
            lv.append(HplFieldAccess(HplThisMessage(), 'f', data_type=DataType(m)))
    before = [l.data_type for l in lv]
    try:
        parent = form.build(list(lv))
        raised = None
    except Exception as e:
        parent = None
        raised = type(e).__name__
    after = [l.data_type for l in lv]
    compat = all(m & p for m, p in zip(masks, form.params))
    if form.unify:
        j = ANY
        for i in form.unify:
            j &= masks[i] & form.params[i]
        compat = compat and bool(j)
    if form.accept is not None:
        compat = bool(z3.is_true(z3.simplify(form.accept([bv(m) for m in masks]))))
    if lemma == 'pure':
        if before != after:
            return f'{form.name}: child type sets {[str(b) for b in before]} became {[str(a) for a in after]}'
        return None
    if lemma == 'sound':
        if raised is None and not compat:
            return f'{form.name}: accepted children {[str(DataType(m)) for m in masks]} although one has no possible type inside its parameter type'
        return None
    if lemma == 'complete':
        if raised is not None and compat:
            return f'{form.name}: raised {raised} for compatible children {[str(DataType(m)) for m in masks]}'
        return None
    if lemma == 'only-TypeError':
        if raised not in (None, 'TypeError'):
            return f'{form.name}: raised {raised} for children {[str(DataType(m)) for m in masks]}'
        return None
    if lemma == 'exact':
        if raised is not None:
            return None
        stored = form.children(parent) if form.children else []
        if form.children and len(stored) != len(masks):
            return f'{form.name}: {len(masks)} children given, {len(stored)} stored'
        got = [s.data_type.value for s in stored]
        want = []
        for i, (m, p) in enumerate(zip(masks, form.params)):
            w = m & p if form.narrows else m
            if i in form.unify:
                for j in form.unify:
                    w &= masks[j] & form.params[j]
            want.append(w)
        if form.result is not None and parent.data_type.value != form.result:
            return f'{form.name}: result type {parent.data_type!r}, declared {DataType(form.result)!r}'
        if got != want:
            return f'{form.name}: stored child type sets {[str(DataType(g)) for g in got]}, expected {[str(DataType(w)) for w in want]} for inputs {[str(DataType(m)) for m in masks]}'
        return None
    return None
