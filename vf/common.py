"""Shared protocol for all checks: tiers, evidence, replays, known findings, exit codes."""
from __future__ import annotations

import hashlib
import json
import os
import sys
import time
import traceback
from pathlib import Path
from typing import Any, Callable, Dict, List, Optional

ROOT = Path(__file__).resolve().parent.parent
EVIDENCE = ROOT / 'evidence'
REPLAYS = ROOT / 'replays'
KNOWN = ROOT / 'known_findings.txt'

EXIT_OK = 0
EXIT_VIOLATION = 1
EXIT_INCONCLUSIVE = 2
MAX_REPORTED = 8


class Inconclusive(Exception):
    """The solver/engine could not decide, or the harness misbehaved: never a pass, never a violation."""


def tier() -> str:
    t = os.environ.get('VERIF_TIER', 'quick')
    return t if t in ('quick', 'thorough') else 'quick'


def seed() -> int:
    try:
        return int(os.environ.get('VERIF_SEED', '0'))
    except ValueError:
        return 0


def ncores() -> int:
    try:
        return max(1, min(16, len(os.sched_getaffinity(0))))
    except Exception:
        return max(1, min(16, os.cpu_count() or 1))


def load_known() -> List[Dict[str, Any]]:
    """known_findings.txt, read-only at run time. Lines:
         known: property=<id> signature=«<sig>» :: <what fails>
         fixed: property=<id> <commit> <what failed>          (suppresses nothing)"""
    out = []
    if KNOWN.exists():
        for line in KNOWN.read_text().splitlines():
            line = line.strip()
            if line.startswith('known:'):
                try:
                    pid = line.split('property=', 1)[1].split()[0]
                    sig = line.split('signature=«', 1)[1].split('»', 1)[0]
                except IndexError:
                    continue
                out.append({'status': 'known', 'property': pid, 'signature': sig, 'what': line.split('::', 1)[-1].strip()})
            elif line.startswith('fixed:'):
                pid = line.split('property=', 1)[1].split()[0]
                out.append({'status': 'fixed', 'property': pid, 'what': line})
    return out


class Finding:
    def __init__(self, signature: str, what: str, replay: Dict[str, Any]):
        self.signature = signature
        self.what = what
        self.replay = replay


class Check:
    """One run of one property's check. Collects obligations and counterexamples; on finish() writes
    evidence, prints KNOWN-FINDING / VIOLATION lines and exits with the protocol's exit code."""

    def __init__(self, pid: str, level: str, technique: str):
        self.pid = pid
        self.level = level
        self.technique = technique
        self.tier = tier()
        self.seed = seed()
        self.t0 = time.time()
        self.coverage: Dict[str, Any] = {
            'obligations': 0,
            'discharged': 0,
            'queries': {'unsat': 0, 'sat': 0, 'unknown': 0},
            'solver_s': 0.0,
            'samples': [],
            'functions_encoded': [],
            'bounds': {},
            'outside_bounds': [],
            'engines': {},
        }
        self.assumptions: List[str] = []
        self.findings: List[Finding] = []
        self.inconclusive: List[str] = []
        self.known = [k for k in load_known() if k.get('property') == pid]
        # replays of earlier runs of this property are stale
        d = REPLAYS / pid
        if d.exists():
            for f in d.glob('*.json'):
                try:
                    f.unlink()
                except OSError:
                    pass

    # -- bookkeeping -------------------------------------------------------
    def functions(self, *names: str):
        for n in names:
            if n not in self.coverage['functions_encoded']:
                self.coverage['functions_encoded'].append(n)

    def bound(self, key: str, value: Any):
        self.coverage['bounds'][key] = value

    def outside(self, text: str):
        if text not in self.coverage['outside_bounds']:
            self.coverage['outside_bounds'].append(text)

    def assume(self, text: str):
        if text not in self.assumptions:
            self.assumptions.append(text)

    def sample(self, s: Any, cap: int = 24):
        if len(self.coverage['samples']) < cap:
            self.coverage['samples'].append(s)

    def obligation(self, ok: Optional[bool], n: int = 1):
        """ok True = discharged (unsat / confirmed); False = counterexample; None = undecided."""
        self.coverage['obligations'] += n
        if ok:
            self.coverage['discharged'] += n

    def query(self, verdict: str, secs: float = 0.0, n: int = 1):
        q = self.coverage['queries']
        q[verdict] = q.get(verdict, 0) + n
        self.coverage['solver_s'] += secs

    def engine(self, name: str, **stats):
        e = self.coverage['engines'].setdefault(name, {})
        for k, v in stats.items():
            if isinstance(v, (int, float)) and isinstance(e.get(k), (int, float)):
                e[k] += v
            else:
                e[k] = v

    def undecided(self, why: str):
        self.inconclusive.append(why)

    def counterexample(self, signature: str, what: str, replay: Dict[str, Any]):
        """A counterexample that HAS ALREADY been replayed on the real code in plain Python."""
        self.findings.append(Finding(signature.replace('\n', ' '), str(what).replace('\n', ' // '), replay))

    # -- finish ------------------------------------------------------------
    def _write_replay(self, f: Finding) -> str:
        d = REPLAYS / self.pid
        d.mkdir(parents=True, exist_ok=True)
        payload = dict(f.replay)
        payload.setdefault('property', self.pid)
        payload['signature'] = f.signature
        payload['what'] = f.what
        blob = json.dumps(payload, sort_keys=True, default=str)
        h = hashlib.sha1(blob.encode()).hexdigest()[:12]
        p = d / f'{h}.json'
        p.write_text(json.dumps(payload, indent=1, sort_keys=True, default=str))
        return str(p)

    def finish(self) -> int:
        cov = self.coverage
        cov['solver_s'] = round(cov['solver_s'], 3)
        known_sigs = {k['signature']: k for k in self.known if k.get('status') == 'known'}
        new: List[Finding] = []
        seen_known: Dict[str, Finding] = {}
        seen_new = set()
        for f in self.findings:
            if f.signature in known_sigs:
                seen_known.setdefault(f.signature, f)
            elif f.signature not in seen_new:
                seen_new.add(f.signature)
                new.append(f)
        for sig, f in sorted(seen_known.items()):
            print(f'KNOWN-FINDING: property={self.pid} {sig} :: {f.what}')
        lines = []
        for f in new[:MAX_REPORTED]:
            path = self._write_replay(f)
            lines.append(f'VIOLATION property={self.pid} replay={path}')
            print(f'  counterexample [{short(f.signature, 120)}]: {short(f.what, 400)}')
        if len(new) > MAX_REPORTED:
            print(f'  ... and {len(new) - MAX_REPORTED} further distinct counterexamples (not listed)')
        for line in lines:
            print(line)
        if not cov['samples']:
            cov['samples'] = ['(no samples recorded)']
        cov['known_findings_met'] = sorted(seen_known)
        cov['inconclusive'] = self.inconclusive[:20]
        cov.setdefault('explanation', self.technique)
        ev = {
            'property_id': self.pid,
            'tier': self.tier,
            'seed': self.seed,
            'level': self.level,
            'coverage': cov,
            'assumptions': self.assumptions,
            'wall_s': round(time.time() - self.t0, 2),
            'violations': len(new),
        }
        EVIDENCE.mkdir(exist_ok=True)
        (EVIDENCE / f'{self.pid}.json').write_text(json.dumps(ev, indent=1, default=str) + '\n')
        q = cov['queries']
        print(
            f'[{self.pid}] tier={self.tier} obligations={cov["obligations"]} discharged={cov["discharged"]} '
            f'queries(unsat/sat/unknown)={q.get("unsat", 0)}/{q.get("sat", 0)}/{q.get("unknown", 0)} '
            f'solver_s={cov["solver_s"]} wall_s={ev["wall_s"]} known={len(seen_known)} new={len(new)} '
            f'inconclusive={len(self.inconclusive)}'
        )
        for w in self.inconclusive[:10]:
            print(f'INCONCLUSIVE: {short(w, 300)}')
        if new:
            return EXIT_VIOLATION
        if self.inconclusive:
            return EXIT_INCONCLUSIVE
        return EXIT_OK


def run_guarded(fn: Callable[[], int]) -> int:
    try:
        return fn()
    except Inconclusive as e:
        print(f'INCONCLUSIVE: {e}')
        return EXIT_INCONCLUSIVE
    except SystemExit:
        raise
    except BaseException:
        traceback.print_exc()
        print('HARNESS-ERROR: unexpected exception in the check itself (not a verdict)')
        return EXIT_INCONCLUSIVE


def short(s: Any, n: int = 200) -> str:
    s = str(s)
    return s if len(s) <= n else s[: n - 3] + '...'
