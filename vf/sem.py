"""Reference semantics of HPL expressions (DESIGN.md 3.1), twice and independently of hpl.rewrite:

* ``pyeval``  — a plain-Python evaluator over an abstract *heap* (used to replay solver models, and usable
  on CrossHair-symbolic values);
* ``Z3Tr``    — a translator from real ``hpl.ast`` objects to quantifier-free z3 terms ``(value, defined)``.

Both walk the AST through its attrs fields (``operand1``, ``values`` …), never through ``children()``,
``iterate()`` or any query method of the code under test.

Semantics is deliberately partial (``Undef`` / ``defined = False``) wherever HPL's meaning is not documented;
an equivalence claim is only made on valuations where the *input* is defined.
"""
from __future__ import annotations

import math
from fractions import Fraction
from typing import Any, Dict, List, Optional, Tuple

import z3


class Undef(Exception):
    """evaluation is undefined (error, or meaning not fixed by the documentation)"""


class Unclaimed(Undef):
    """the documentation does not fix the meaning here: no equivalence is claimed — but this is NOT an evaluation error
    (so it is no licence for a rewriting function to raise)"""


# ---------------------------------------------------------------------------
# AST access helpers (structural, independent of the query API under test)
# ---------------------------------------------------------------------------

def kind(e) -> str:
    return type(e).__name__


def is_closed(e) -> bool:
    """no reference to any message/variable anywhere below e (then Python's own arithmetic defines the value)"""
    k = kind(e)
    if k == 'HplLiteral':
        return True
    if k in ('HplThisMessage', 'HplVarReference', 'HplFieldAccess', 'HplArrayAccess', 'HplQuantifier'):
        return False
    if k == 'HplSet':
        return all(is_closed(v) for v in e.values)
    if k == 'HplRange':
        return is_closed(e.min_value) and is_closed(e.max_value)
    if k == 'HplUnaryOperator':
        return is_closed(e.operand)
    if k == 'HplBinaryOperator':
        return is_closed(e.operand1) and is_closed(e.operand2)
    if k == 'HplFunctionCall':
        return all(is_closed(a) for a in e.arguments)
    raise TypeError(f'unknown node kind {k}')


def lit_value(e):
    """denotation of a literal: bool | int | float | str (string literals denote their token without quotes)"""
    v = e.value
    if v is True or v is False:
        return v
    if isinstance(v, str):
        if len(v) >= 2 and v[0] == '"' and v[-1] == '"':
            body = v[1:-1]
            # the two escapes of the claim's bound
            return body.replace('\\"', '"').replace('\\\\', '\\')
        return v
    if isinstance(v, float) and (math.isinf(v) or math.isnan(v)):
        raise Undef('non-finite literal')
    return v


# ---------------------------------------------------------------------------
# Python evaluator
# ---------------------------------------------------------------------------

class Msg:
    __slots__ = ('id',)

    def __init__(self, id):
        self.id = id

    def __eq__(self, o):
        return isinstance(o, Msg) and o.id == self.id

    def __hash__(self):
        return hash(('Msg', self.id))

    def __repr__(self):
        return f'Msg({self.id})'


class Arr:
    __slots__ = ('id',)

    def __init__(self, id):
        self.id = id

    def __eq__(self, o):
        return isinstance(o, Arr) and o.id == self.id

    def __hash__(self):
        return hash(('Arr', self.id))

    def __repr__(self):
        return f'Arr({self.id})'


class Heap:
    """valuation interface used by pyeval"""

    def this(self):
        raise NotImplementedError

    def alias(self, name: str):
        raise NotImplementedError

    def field(self, msg: Msg, name: str):
        raise NotImplementedError

    def alen(self, arr: Arr) -> int:
        raise NotImplementedError

    def aelem(self, arr: Arr, i: int):
        raise NotImplementedError

    def rlist(self, lo, hi, exmin, exmax) -> List[Any]:
        """the abstract finite list a non-literal range denotes as a quantifier domain"""
        raise Unclaimed('range enumeration not provided')


class DictHeap(Heap):
    """Concrete heap: messages are dicts, arrays are lists. this=dict, aliases={name: dict|prim}"""

    def __init__(self, this: Dict[str, Any], aliases: Optional[Dict[str, Any]] = None, rlists=None):
        self._objs: List[Any] = []
        self._this = self._wrap(this)
        self._aliases = {k: self._wrap(v) for k, v in (aliases or {}).items()}
        self._rlists = rlists or {}

    def _wrap(self, v):
        if isinstance(v, dict):
            self._objs.append(v)
            return Msg(len(self._objs) - 1)
        if isinstance(v, (list, tuple)):
            self._objs.append(list(v))
            return Arr(len(self._objs) - 1)
        return v

    def this(self):
        return self._this

    def alias(self, name):
        if name not in self._aliases:
            raise Undef(f'no value for @{name}')
        return self._aliases[name]

    def field(self, msg, name):
        d = self._objs[msg.id]
        if name not in d:
            raise Undef(f'no field {name}')
        return self._wrap(d[name])

    def alen(self, arr):
        return len(self._objs[arr.id])

    def aelem(self, arr, i):
        return self._wrap(self._objs[arr.id][i])

    def rlist(self, lo, hi, exmin, exmax):
        key = (lo, hi, exmin, exmax)
        if key in self._rlists:
            return self._rlists[key]
        raise Unclaimed('range enumeration not provided')


def _is_num(v) -> bool:
    return isinstance(v, (int, float, Fraction)) and not isinstance(v, bool)


def _num(v):
    if not _is_num(v):
        raise Undef(f'not a number: {v!r}')
    if isinstance(v, float) and (math.isinf(v) or math.isnan(v)):
        raise Undef('non-finite')
    return v


def _bool(v):
    if v is True or v is False:
        return v
    if isinstance(v, bool):  # symbolic bools of CrossHair are not the singletons
        return v
    raise Undef(f'not a boolean: {v!r}')


def _exact(v):
    """lift to Fraction when mixing with exact values"""
    if isinstance(v, float):
        return Fraction(v)
    return v


def _arith(op: str, a, b):
    a = _num(a)
    b = _num(b)
    if isinstance(a, Fraction) or isinstance(b, Fraction):
        a = Fraction(_exact(a))
        b = Fraction(_exact(b))
    try:
        if op == '+':
            return a + b
        if op == '-':
            return a - b
        if op == '*':
            return a * b
        if op == '/':
            if b == 0:
                raise Undef('division by zero')
            return a / b
        if op == '**':
            if isinstance(a, Fraction):
                if b.denominator != 1:
                    raise Unclaimed('non-integer exponent')
                n = int(b)
                if n < 0 and a == 0:
                    raise Undef('0 ** negative')
                if abs(n) > 64:
                    raise Unclaimed('exponent too large')
                return a ** n
            r = a ** b
            if isinstance(r, complex):
                raise Undef('complex power')
            return r
    except (ZeroDivisionError, OverflowError, ValueError):
        raise Undef(f'{op} failed')
    raise TypeError(op)


def _same_kind(a, b) -> bool:
    ka = 'b' if isinstance(a, bool) else 'n' if _is_num(a) else 's' if isinstance(a, str) else None
    kb = 'b' if isinstance(b, bool) else 'n' if _is_num(b) else 's' if isinstance(b, str) else None
    return ka is not None and ka == kb


def _num_eq(a, b) -> bool:
    if isinstance(a, Fraction) or isinstance(b, Fraction):
        return Fraction(_exact(a)) == Fraction(_exact(b))
    return a == b


class _Compound:
    def __init__(self, kind, elems=None, lo=None, hi=None, exmin=False, exmax=False, listable=True):
        self.kind = kind  # 'array' | 'set' | 'range'
        self.elems = elems
        self.lo, self.hi, self.exmin, self.exmax = lo, hi, exmin, exmax
        self.listable = listable


def pyeval(e, heap: Heap, env: Optional[Dict[str, Any]] = None):
    """value of expression e: bool | number | str | Msg | Arr; raises Undef"""
    env = env or {}
    k = kind(e)
    if k == 'HplLiteral':
        return lit_value(e)
    if k == 'HplThisMessage':
        return heap.this()
    if k == 'HplVarReference':
        name = e.token[1:]
        if name in env:
            return env[name]
        return heap.alias(name)
    if k == 'HplFieldAccess':
        m = pyeval(e.message, heap, env)
        if not isinstance(m, Msg):
            raise Undef('field access on non-message')
        return heap.field(m, e.field)
    if k == 'HplArrayAccess':
        a = pyeval(e.array, heap, env)
        i = _num(pyeval(e.index, heap, env))
        if not isinstance(a, Arr):
            raise Undef('index on non-array')
        if Fraction(_exact(i)).denominator != 1:
            raise Undef('non-integer index')
        i = int(i)
        if i < 0 or i >= heap.alen(a):
            raise Undef('index out of range')
        return heap.aelem(a, i)
    if k == 'HplUnaryOperator':
        v = pyeval(e.operand, heap, env)
        if e.operator.token == '-':
            return -_num(v)
        return not _bool(v)
    if k == 'HplBinaryOperator':
        return _py_binop(e, heap, env)
    if k == 'HplQuantifier':
        dom = _py_compound(e.domain, heap, env)
        elems = _py_elements(dom, heap)
        name = e.variable
        for sub in invariant_subterms(e.condition, [name]):
            pyeval(sub, heap, env)  # must be defined even if the domain is empty
        results = []
        for v in elems:
            env2 = dict(env)
            env2[name] = v
            results.append(_bool(pyeval(e.condition, heap, env2)))
        if e.quantifier.value == 'forall':
            return all(results)
        return any(results)
    if k == 'HplFunctionCall':
        return _py_call(e, heap, env)
    if k in ('HplSet', 'HplRange'):
        raise Undef('compound value used as item')
    raise TypeError(f'unknown node kind {k}')


def _py_compound(e, heap, env) -> _Compound:
    k = kind(e)
    if k == 'HplSet':
        return _Compound('set', elems=[pyeval(v, heap, env) for v in e.values])
    if k == 'HplRange':
        lo = _num(pyeval(e.min_value, heap, env))
        hi = _num(pyeval(e.max_value, heap, env))
        lit = kind(e.min_value) == 'HplLiteral' and kind(e.max_value) == 'HplLiteral'
        return _Compound('range', lo=lo, hi=hi, exmin=bool(e.exclude_min), exmax=bool(e.exclude_max), listable=lit)
    v = pyeval(e, heap, env)
    if isinstance(v, Arr):
        return _Compound('array', elems=[heap.aelem(v, i) for i in range(heap.alen(v))])
    raise Undef('not a compound value')


RANGE_ENUM_MAX = 12


def _int_range(c: _Compound) -> List[int]:
    """integer elements of a range with literal integer bounds lo <= hi (the only ranges whose contents are claimed)"""
    lo, hi = c.lo, c.hi
    if not (isinstance(lo, int) and isinstance(hi, int)) or isinstance(lo, bool) or isinstance(hi, bool):
        raise Unclaimed('range contents only defined for integer literal bounds')
    if lo > hi:
        raise Unclaimed('inverted range')
    a = lo + (1 if c.exmin else 0)
    b = hi - (1 if c.exmax else 0)
    if b - a + 1 > RANGE_ENUM_MAX:
        raise Unclaimed('range too large for the bound')
    return list(range(a, b + 1))


def _py_elements(c: _Compound, heap) -> List[Any]:
    if c.kind in ('array', 'set'):
        return c.elems
    if c.listable:
        return _int_range(c)
    return heap.rlist(c.lo, c.hi, c.exmin, c.exmax)


def _in_range(x, c: _Compound) -> bool:
    x = _num(x)
    lo, hi = c.lo, c.hi
    if any(isinstance(v, Fraction) for v in (x, lo, hi)):
        x, lo, hi = (Fraction(_exact(v)) for v in (x, lo, hi))
    okl = x > lo if c.exmin else x >= lo
    okh = x < hi if c.exmax else x <= hi
    return okl and okh


def _py_eq(a, b) -> bool:
    if not _same_kind(a, b):
        raise Unclaimed('= on values of different kinds')
    if _is_num(a):
        _num(a), _num(b)
        return _num_eq(a, b)
    return a == b


def _py_binop(e, heap, env):
    tok = e.operator.token
    if tok == 'in':
        x = pyeval(e.operand1, heap, env)
        c = _py_compound(e.operand2, heap, env)
        if c.kind == 'range':
            return _in_range(x, c)
        res = False
        for v in c.elems:
            if _py_eq(x, v):
                res = True
        return res
    a = pyeval(e.operand1, heap, env)
    b = pyeval(e.operand2, heap, env)
    if tok in ('+', '-', '*', '/', '**'):
        return _arith(tok, a, b)
    if tok in ('and', 'or', 'implies', 'iff'):
        a = _bool(a)
        b = _bool(b)
        if tok == 'and':
            return a and b
        if tok == 'or':
            return a or b
        if tok == 'implies':
            return (not a) or b
        return a == b
    if tok == '=':
        return _py_eq(a, b)
    if tok == '!=':
        return not _py_eq(a, b)
    if tok in ('<', '<=', '>', '>='):
        a = _num(a)
        b = _num(b)
        if isinstance(a, Fraction) or isinstance(b, Fraction):
            a = Fraction(_exact(a))
            b = Fraction(_exact(b))
        return {'<': a < b, '<=': a <= b, '>': a > b, '>=': a >= b}[tok]
    raise TypeError(f'unknown operator {tok}')


def _distinct(vals) -> bool:
    for i in range(len(vals)):
        for j in range(i + 1, len(vals)):
            if _same_kind(vals[i], vals[j]) and _py_eq(vals[i], vals[j]):
                return False
    return True


def _dedupe(vals):
    out = []
    for v in vals:
        if not any(_same_kind(v, w) and _py_eq(v, w) for w in out):
            out.append(v)
    return out


def _agg_elems(arg, heap, env) -> List[Any]:
    c = _py_compound(arg, heap, env)
    if c.kind == 'set':
        # two admissible readings of an enumerated set with coinciding elements: as listed / as a mathematical set
        if getattr(heap, 'reading', 'list') == 'set':
            return _dedupe(c.elems)
        return c.elems
    if c.kind == 'array':
        return c.elems
    if not c.listable:
        raise Unclaimed('aggregate over a non-literal range')
    return _int_range(c)


def _py_call(e, heap, env):
    name = e.function.name
    args = e.arguments
    try:
        if name in ('len',):
            c = _py_compound(args[0], heap, env)
            if c.kind == 'range':
                if c.listable:
                    return len(_int_range(c))
                return len(heap.rlist(c.lo, c.hi, c.exmin, c.exmax))
            if c.kind == 'set' and getattr(heap, 'reading', 'list') == 'set':
                return len(_dedupe(c.elems))
            return len(c.elems)
        if name in ('sum', 'prod'):
            vals = [_num(v) for v in _agg_elems(args[0], heap, env)]
            acc = 0 if name == 'sum' else 1
            for v in vals:
                acc = _arith('+' if name == 'sum' else '*', acc, v)
            return acc
        if name in ('max', 'min', 'gcd') and len(args) == 1:
            vals = [_num(v) for v in _agg_elems(args[0], heap, env)]
        elif name in ('max', 'min', 'gcd'):
            vals = [_num(pyeval(a, heap, env)) for a in args]
        if name in ('max', 'min'):
            if not vals:
                raise Undef('max/min of nothing')
            if any(isinstance(v, Fraction) for v in vals):
                vals = [Fraction(_exact(v)) for v in vals]
            return max(vals) if name == 'max' else min(vals)
        if name == 'gcd':
            ints = []
            for v in vals:
                if Fraction(_exact(v)).denominator != 1:
                    raise Undef('gcd of non-integer')
                ints.append(int(v))
            if not ints:
                raise Undef('gcd of nothing')
            return math.gcd(*ints)
        vs = [pyeval(a, heap, env) for a in args]
        if name == 'abs':
            return abs(_num(vs[0]))
        if name == 'bool':
            v = vs[0]
            if isinstance(v, bool):
                return v
            if _is_num(v):
                return _num(v) != 0
            if isinstance(v, str):
                return len(v) > 0
            raise Undef('bool of non-primitive')
        if name in ('int', 'float'):
            v = vs[0]
            if isinstance(v, bool):
                return (1 if v else 0) if name == 'int' else (1.0 if v else 0.0)
            if _is_num(v):
                v = _num(v)
                if name == 'float':
                    return v if isinstance(v, Fraction) else float(v)
                return math.trunc(v)
            if isinstance(v, str):
                # Python's own conversion of the denoted string: a numeral converts, anything else is an evaluation error
                try:
                    return int(v.strip()) if name == 'int' else float(v.strip())
                except ValueError:
                    raise Undef(f'{name} of a non-numeric string')
            raise Unclaimed(f'{name} of a non-primitive is not claimed')
        if name == 'str':
            v = vs[0]
            if isinstance(v, str):
                return v
            if isinstance(v, bool) or isinstance(v, (int, float)):
                return str(v)
            raise Unclaimed('str of exact rational not claimed')
        if name in ('ceil', 'floor'):
            v = _num(vs[0])
            return math.ceil(v) if name == 'ceil' else math.floor(v)
        fl = [float(_num(v)) for v in vs]
        if name == 'sqrt':
            if fl[0] < 0:
                raise Undef('sqrt of negative')
            return math.sqrt(fl[0])
        if name == 'log':
            if fl[1] == 10:
                return math.log10(fl[0])
            return math.log(fl[0], fl[1])
        table = {'sin': math.sin, 'cos': math.cos, 'tan': math.tan, 'asin': math.asin, 'acos': math.acos,
                 'atan': math.atan, 'deg': math.degrees, 'rad': math.radians}
        if name in table:
            return table[name](fl[0])
        if name == 'atan2':
            return math.atan2(fl[0], fl[1])
        raise Unclaimed(f'function {name} is uninterpreted')
    except (ValueError, ZeroDivisionError, OverflowError, IndexError):
        raise Undef(f'{name} failed')


def value_equal(a, b) -> bool:
    """same denotation (numbers compared exactly)"""
    if isinstance(a, bool) or isinstance(b, bool):
        return isinstance(a, bool) and isinstance(b, bool) and a == b
    if _is_num(a) and _is_num(b):
        try:
            return _num_eq(_num(a), _num(b))
        except Undef:
            return False
    return type(a) == type(b) and a == b


# ---------------------------------------------------------------------------
# z3 translation
# ---------------------------------------------------------------------------

Val = z3.Datatype('Val')
Val.declare('B', ('b', z3.BoolSort()))
Val.declare('N', ('n', z3.RealSort()))
Val.declare('S', ('s', z3.StringSort()))
Val.declare('M', ('m', z3.IntSort()))
Val.declare('A', ('a', z3.IntSort()))
Val = Val.create()

ALEN = z3.Function('alen', z3.IntSort(), z3.IntSort())
AELEM = z3.Function('aelem', z3.IntSort(), z3.IntSort(), Val)
RLEN = z3.Function('rlen', z3.RealSort(), z3.RealSort(), z3.BoolSort(), z3.BoolSort(), z3.IntSort())
RELEM = z3.Function('relem', z3.RealSort(), z3.RealSort(), z3.BoolSort(), z3.BoolSort(), z3.IntSort(), z3.RealSort())
POW = z3.Function('pow', z3.RealSort(), z3.RealSort(), z3.RealSort())
POWDEF = z3.Function('pow_def', z3.RealSort(), z3.RealSort(), z3.BoolSort())
STRF = z3.Function('str_of', Val, z3.StringSort())

_FLD: Dict[str, Any] = {}
_UF: Dict[Tuple[str, int], Any] = {}


def fld(name: str):
    f = _FLD.get(name)
    if f is None:
        f = z3.Function(f'fld_{name}', z3.IntSort(), Val)
        _FLD[name] = f
    return f


def uf(name: str, arity: int):
    f = _UF.get((name, arity))
    if f is None:
        f = z3.Function(f'f_{name}{arity}', *([z3.RealSort()] * arity), z3.RealSort())
        _UF[(name, arity)] = f
    return f


def real_const(v) -> Any:
    if isinstance(v, bool):
        raise TypeError('bool is not a number')
    if isinstance(v, int):
        return z3.RealVal(v)
    fr = Fraction(v)
    return z3.RealVal(f'{fr.numerator}/{fr.denominator}')


def to_val(v):
    """python denotation -> z3 Val term"""
    if isinstance(v, bool):
        return Val.B(z3.BoolVal(v))
    if isinstance(v, (int, float, Fraction)):
        return Val.N(real_const(v))
    if isinstance(v, str):
        return Val.S(z3.StringVal(v))
    raise Undef(f'cannot inject {v!r}')


class ZCompound:
    def __init__(self, kind, slots, length, df, lo=None, hi=None, exmin=None, exmax=None, agg_ok=None, agg_slots=None, agg_len=None):
        self.kind = kind
        self.slots = slots  # list of (guard, val: Val, def)
        self.length = length  # Int term
        self.df = df
        self.lo, self.hi, self.exmin, self.exmax = lo, hi, exmin, exmax
        self.agg_ok = agg_ok if agg_ok is not None else z3.BoolVal(True)  # aggregates (len/sum/..) defined
        self.agg_slots = agg_slots if agg_slots is not None else slots  # what len/sum/prod range over
        self.agg_len = agg_len if agg_len is not None else length


class Z3Tr:
    """Translate hpl.ast expressions into (value, defined) z3 terms. Quantifier-free: quantifiers over arrays
    are expanded over K slots under the assumption alen <= K (a stated bound on the valuations)."""

    def __init__(self, K: int = 2, this=None, aliases: Optional[Dict[str, Any]] = None, reading: str = 'list'):
        self.K = K
        self.reading = reading  # enumerated sets with coinciding elements: 'list' (as written) or 'set' (deduplicated)
        self.dual = False  # True once an aggregate-relevant multi-element set literal has been translated
        self.this = this if this is not None else z3.IntVal(0)
        self.aliases = dict(aliases or {})
        self.assumptions: List[Any] = []
        self._arr_seen = set()
        self._rng_seen = set()
        self.uses_uf = False
        self.uf_apps: List[Tuple[str, List[Any], Any]] = []  # (function, argument terms, application term) for refinement

    # -- helpers -----------------------------------------------------------
    def alias_term(self, name: str):
        if name in self.aliases:
            return self.aliases[name]
        return z3.Const(f'var_{name}', Val)

    def _arr(self, aid):
        key = aid.sexpr()
        if key not in self._arr_seen:
            self._arr_seen.add(key)
            self.assumptions.append(z3.And(ALEN(aid) >= 0, ALEN(aid) <= self.K))

    def _closed(self, e):
        """closed subtree: Python's own arithmetic defines the value (mirrors constant folding); None if compound"""
        try:
            h = Heap()
            h.reading = self.reading
            v = pyeval(e, h, {})
            # an aggregate over an enumerated set with coinciding elements has two admissible readings: encode both
            h2 = Heap()
            h2.reading = 'set' if self.reading == 'list' else 'list'
            try:
                v2 = pyeval(e, h2, {})
                if not value_equal(v, v2):
                    self.dual = True
            except Undef:
                self.dual = True
        except Undef:
            return None, z3.BoolVal(False)
        try:
            if isinstance(v, float) and (math.isinf(v) or math.isnan(v)):
                return None, z3.BoolVal(False)
            return to_val(v), z3.BoolVal(True)
        except (Undef, OverflowError):
            return None, z3.BoolVal(False)

    # -- schema-consistency of the valuation -------------------------------
    def typing(self, e) -> List[Any]:
        """Constraints saying the valuation gives every reference of e that does not depend on a quantified variable
        a value of a kind inside the type set stored on that node (one concrete type per field, as under a schema).
        Without them a type error hidden in the body of a quantifier over an empty domain would count as 'defined'."""
        out: List[Any] = []

        def tagok(v, mask):
            names = {'BOOL': Val.is_B, 'NUMBER': Val.is_N, 'STRING': Val.is_S, 'ARRAY': Val.is_A, 'MESSAGE': Val.is_M}
            alts = []
            for m in type(mask):
                if m.name in names and (mask & m):
                    alts.append(names[m.name](v))
            return z3.Or(*alts) if alts else z3.BoolVal(False)

        def walk(n, bound):
            k = kind(n)
            if k in ('HplFieldAccess', 'HplArrayAccess', 'HplVarReference'):
                if not _mentions(n, bound) and not (k == 'HplVarReference' and n.token[1:] in bound):
                    v, d = self.tr(n, {})
                    out.append(z3.Implies(d, tagok(v, n.data_type)))
            if k == 'HplQuantifier' and not _mentions(n.domain, bound):
                mask = None
                for m in walk_nodes(n.condition):
                    if kind(m) == 'HplVarReference' and m.token[1:] == n.variable:
                        mask = m.data_type if mask is None else (mask & m.data_type)
                if mask is not None:
                    try:
                        comp = self.compound(n.domain, {})
                        for g, v, dv in (comp.slots or []):
                            out.append(z3.Implies(z3.And(comp.df, g, dv), tagok(v, mask)))
                    except Exception:
                        pass
            for c in _kids(n):
                walk(c, bound | ({n.variable} if k == 'HplQuantifier' else set()))

        walk(e, set())
        return out

    # -- items -------------------------------------------------------------
    def tr(self, e, env: Optional[Dict[str, Any]] = None) -> Tuple[Any, Any]:
        env = env or {}
        k = kind(e)
        if k not in ('HplSet', 'HplRange') and is_closed(e):
            v, d = self._closed(e)
            if v is None:
                return Val.B(z3.BoolVal(False)), z3.BoolVal(False)
            return v, d
        if k == 'HplThisMessage':
            return Val.M(self.this), z3.BoolVal(True)
        if k == 'HplVarReference':
            name = e.token[1:]
            if name in env:
                return env[name]
            return self.alias_term(name), z3.BoolVal(True)
        if k == 'HplFieldAccess':
            m, d = self.tr(e.message, env)
            return fld(e.field)(Val.m(m)), z3.And(d, Val.is_M(m))
        if k == 'HplArrayAccess':
            a, da = self.tr(e.array, env)
            i, di = self.tr(e.index, env)
            aid = Val.a(a)
            self._arr(aid)
            idx = Val.n(i)
            ii = z3.ToInt(idx)
            d = z3.And(da, di, Val.is_A(a), Val.is_N(i), z3.IsInt(idx), ii >= 0, ii < ALEN(aid))
            return AELEM(aid, ii), d
        if k == 'HplUnaryOperator':
            v, d = self.tr(e.operand, env)
            if e.operator.token == '-':
                return Val.N(-Val.n(v)), z3.And(d, Val.is_N(v))
            return Val.B(z3.Not(Val.b(v))), z3.And(d, Val.is_B(v))
        if k == 'HplBinaryOperator':
            return self._binop(e, env)
        if k == 'HplQuantifier':
            c = self.compound(e.domain, env)
            if c.slots is None:  # contents of this range are not claimed
                return Val.B(z3.BoolVal(False)), z3.BoolVal(False)
            vals = []
            defs = [c.df]
            for sub in invariant_subterms(e.condition, [e.variable]):
                defs.append(self.tr(sub, env)[1])  # must be defined even if the domain is empty
            for g, v, dv in c.slots:
                env2 = dict(env)
                env2[e.variable] = (v, z3.BoolVal(True))
                b, db = self.tr(e.condition, env2)
                defs.append(z3.Implies(g, z3.And(dv, db, Val.is_B(b))))
                if e.quantifier.value == 'forall':
                    vals.append(z3.Implies(g, Val.b(b)))
                else:
                    vals.append(z3.And(g, Val.b(b)))
            if e.quantifier.value == 'forall':
                r = z3.And(*vals) if vals else z3.BoolVal(True)
            else:
                r = z3.Or(*vals) if vals else z3.BoolVal(False)
            return Val.B(r), z3.And(*defs)
        if k == 'HplFunctionCall':
            return self._call(e, env)
        if k in ('HplSet', 'HplRange'):
            return Val.B(z3.BoolVal(False)), z3.BoolVal(False)
        raise TypeError(f'unknown node kind {k}')

    # -- compounds ---------------------------------------------------------
    def compound(self, e, env) -> ZCompound:
        k = kind(e)
        if k == 'HplSet':
            slots = []
            defs = []
            for v in e.values:
                t, d = self.tr(v, env)
                slots.append((z3.BoolVal(True), t, d))
                defs.append(d)
            if self.reading == 'set' and len(slots) > 1:
                self.dual = True
                agg_slots = []
                for i, (g, t, d) in enumerate(slots):
                    first = z3.And(*[slots[j][1] != t for j in range(i)]) if i else z3.BoolVal(True)
                    agg_slots.append((first, t, d))
                agg_len = z3.Sum(*[z3.If(g, 1, 0) for g, _, _ in agg_slots])
                return ZCompound('set', slots, z3.IntVal(len(slots)), z3.And(*defs) if defs else z3.BoolVal(True),
                                 agg_slots=agg_slots, agg_len=agg_len)
            if len(slots) > 1:
                self.dual = True
            return ZCompound('set', slots, z3.IntVal(len(slots)), z3.And(*defs) if defs else z3.BoolVal(True))
        if k == 'HplRange':
            lo, dlo = self.tr(e.min_value, env)
            hi, dhi = self.tr(e.max_value, env)
            df = z3.And(dlo, dhi, Val.is_N(lo), Val.is_N(hi))
            exmin = bool(e.exclude_min)
            exmax = bool(e.exclude_max)
            lit = kind(e.min_value) == 'HplLiteral' and kind(e.max_value) == 'HplLiteral'
            if lit:
                try:
                    c = _Compound('range', lo=lit_value(e.min_value), hi=lit_value(e.max_value), exmin=exmin, exmax=exmax)
                    ints = _int_range(c)
                    slots = [(z3.BoolVal(True), Val.N(z3.RealVal(i)), z3.BoolVal(True)) for i in ints]
                    return ZCompound('range', slots, z3.IntVal(len(ints)), df, Val.n(lo), Val.n(hi), exmin, exmax)
                except Undef:
                    # membership is still defined; contents (quantification, aggregates) are not
                    return ZCompound('range', None, None, df, Val.n(lo), Val.n(hi), exmin, exmax, agg_ok=z3.BoolVal(False))
            # abstract finite list within the bounds (integer-vs-real reading left open)
            l, h = Val.n(lo), Val.n(hi)
            em, eM = z3.BoolVal(exmin), z3.BoolVal(exmax)
            n = RLEN(l, h, em, eM)
            key = (l.sexpr(), h.sexpr(), exmin, exmax)
            slots = []
            cons = [n >= 0, n <= self.K]
            empty_real = z3.Or(l > h, z3.And(l == h, z3.BoolVal(exmin or exmax)))
            cons.append(z3.Implies(empty_real, n == 0))
            # bounds that happen to be integers lo <= hi: the length is the integer count, as for literal bounds
            cnt = z3.ToInt(h) - z3.ToInt(l) + 1 - (1 if exmin else 0) - (1 if exmax else 0)
            cons.append(z3.Implies(z3.And(z3.IsInt(l), z3.IsInt(h), l <= h), n == z3.If(cnt < 0, 0, cnt)))
            for i in range(self.K):
                x = RELEM(l, h, em, eM, z3.IntVal(i))
                inr = z3.And(x > l if exmin else x >= l, x < h if exmax else x <= h)
                cons.append(z3.Implies(z3.IntVal(i) < n, inr))
                slots.append((z3.IntVal(i) < n, Val.N(x), z3.BoolVal(True)))
            if key not in self._rng_seen:
                self._rng_seen.add(key)
                self.assumptions.append(z3.Implies(df, z3.And(*cons)))
            # aggregates other than len are not claimed on non-literal ranges
            return ZCompound('range', slots, n, df, l, h, exmin, exmax, agg_ok=z3.BoolVal(False))
        # array-valued reference
        a, da = self.tr(e, env)
        aid = Val.a(a)
        self._arr(aid)
        slots = [(z3.IntVal(i) < ALEN(aid), AELEM(aid, z3.IntVal(i)), z3.BoolVal(True)) for i in range(self.K)]
        return ZCompound('array', slots, ALEN(aid), z3.And(da, Val.is_A(a)))

    # -- operators ---------------------------------------------------------
    def _eq(self, a, b):
        same = z3.Or(z3.And(Val.is_B(a), Val.is_B(b)), z3.And(Val.is_N(a), Val.is_N(b)), z3.And(Val.is_S(a), Val.is_S(b)))
        return a == b, same

    def _binop(self, e, env):
        tok = e.operator.token
        if tok == 'in':
            x, dx = self.tr(e.operand1, env)
            c = self.compound(e.operand2, env)
            if c.kind == 'range':
                xn = Val.n(x)
                r = z3.And(xn > c.lo if c.exmin else xn >= c.lo, xn < c.hi if c.exmax else xn <= c.hi)
                return Val.B(r), z3.And(dx, c.df, Val.is_N(x))
            vals = []
            defs = [dx, c.df]
            for g, v, dv in c.slots:
                eq, same = self._eq(x, v)
                vals.append(z3.And(g, eq))
                defs.append(z3.Implies(g, z3.And(dv, same)))
            return Val.B(z3.Or(*vals) if vals else z3.BoolVal(False)), z3.And(*defs)
        a, da = self.tr(e.operand1, env)
        b, db = self.tr(e.operand2, env)
        d = z3.And(da, db)
        if tok in ('+', '-', '*', '/', '**'):
            x, y = Val.n(a), Val.n(b)
            d = z3.And(d, Val.is_N(a), Val.is_N(b))
            if tok == '+':
                return Val.N(x + y), d
            if tok == '-':
                return Val.N(x - y), d
            if tok == '*':
                return Val.N(x * y), d
            if tok == '/':
                return Val.N(x / y), z3.And(d, y != 0)
            ys = z3.simplify(y)
            if z3.is_rational_value(ys) and ys.denominator_as_long() == 1 and abs(ys.numerator_as_long()) <= 6:
                n = ys.numerator_as_long()
                r = z3.RealVal(1)
                for _ in range(abs(n)):
                    r = r * x
                if n < 0:
                    return Val.N(1 / r), z3.And(d, x != 0)
                return Val.N(r), d
            self.uses_uf = True
            # symbolic exponent: exact on the exponents the rewriting rules single out, uninterpreted elsewhere
            val = z3.If(y == 0, z3.RealVal(1), z3.If(y == 1, x, z3.If(y == 2, x * x, z3.If(y == -1, 1 / x, POW(x, y)))))
            self.uf_apps.append(('pow', [x, y], POW(x, y)))
            dfn = z3.If(z3.Or(y == 0, y == 1, y == 2), z3.BoolVal(True), z3.If(y == -1, x != 0,
                        z3.And(POWDEF(x, y), z3.IsInt(y), z3.Or(y >= 0, x != 0))))
            return Val.N(val), z3.And(d, dfn)
        if tok in ('and', 'or', 'implies', 'iff'):
            p, q = Val.b(a), Val.b(b)
            d = z3.And(d, Val.is_B(a), Val.is_B(b))
            r = {'and': z3.And(p, q), 'or': z3.Or(p, q), 'implies': z3.Implies(p, q), 'iff': p == q}[tok]
            return Val.B(r), d
        if tok in ('=', '!='):
            eq, same = self._eq(a, b)
            return Val.B(eq if tok == '=' else z3.Not(eq)), z3.And(d, same)
        if tok in ('<', '<=', '>', '>='):
            x, y = Val.n(a), Val.n(b)
            r = {'<': x < y, '<=': x <= y, '>': x > y, '>=': x >= y}[tok]
            return Val.B(r), z3.And(d, Val.is_N(a), Val.is_N(b))
        raise TypeError(f'unknown operator {tok}')

    def _nums(self, c: ZCompound):
        """numeric view of the slots: [(guard, Real)] and definedness"""
        out = []
        defs = [c.df, c.agg_ok]
        if c.slots is None:
            return [], z3.BoolVal(False)
        for g, v, dv in c.agg_slots:
            out.append((g, Val.n(v)))
            defs.append(z3.Implies(g, z3.And(dv, Val.is_N(v))))
        return out, z3.And(*defs)

    def _call(self, e, env):
        name = e.function.name
        args = e.arguments
        T = z3.BoolVal(True)
        if name == 'len':
            c = self.compound(args[0], env)
            if c.length is None:
                return Val.N(z3.RealVal(0)), z3.BoolVal(False)
            defs = [c.df] + [z3.Implies(g, dv) for g, v, dv in (c.slots or [])]
            return Val.N(z3.ToReal(c.agg_len)), z3.And(*defs)
        if name in ('sum', 'prod'):
            c = self.compound(args[0], env)
            nums, d = self._nums(c)
            acc = z3.RealVal(0 if name == 'sum' else 1)
            for g, x in nums:
                acc = (acc + z3.If(g, x, 0)) if name == 'sum' else (acc * z3.If(g, x, 1))
            return Val.N(acc), d
        if name in ('max', 'min', 'gcd'):
            if len(args) == 1:
                c = self.compound(args[0], env)
                nums, d = self._nums(c)
                d = z3.And(d, z3.Or(*[g for g, _ in nums]) if nums else z3.BoolVal(False))
            else:
                nums = []
                defs = []
                for a in args:
                    v, dv = self.tr(a, env)
                    nums.append((T, Val.n(v)))
                    defs.append(z3.And(dv, Val.is_N(v)))
                d = z3.And(*defs)
            if name == 'gcd':
                self.uses_uf = True
                gargs = [z3.If(g, x, 0) for g, x in nums]
                r = uf('gcd', len(nums))(*gargs) if nums else z3.RealVal(0)
                if nums:
                    self.uf_apps.append(('gcd', gargs, r))
                return Val.N(r), d
            import hashlib
            key = hashlib.sha1(('|'.join(g.sexpr() + ':' + x.sexpr() for g, x in nums)).encode()).hexdigest()[:16]
            r = z3.Const(f'{name}!{key}', z3.RealSort())  # same arguments => same constant on both sides
            cons = []
            for g, x in nums:
                cons.append(z3.Implies(g, r >= x if name == 'max' else r <= x))
            cons.append(z3.Or(*[z3.And(g, r == x) for g, x in nums]) if nums else z3.BoolVal(True))
            self.assumptions.append(z3.Implies(d, z3.And(*cons)))
            return Val.N(r), d
        vs = [self.tr(a, env) for a in args]
        d = z3.And(*[dv for _, dv in vs])
        v0 = vs[0][0]
        if name == 'abs':
            x = Val.n(v0)
            return Val.N(z3.If(x < 0, -x, x)), z3.And(d, Val.is_N(v0))
        if name == 'bool':
            r = z3.If(Val.is_B(v0), Val.b(v0), z3.If(Val.is_N(v0), Val.n(v0) != 0, z3.Length(Val.s(v0)) > 0))
            return Val.B(r), z3.And(d, z3.Or(Val.is_B(v0), Val.is_N(v0), Val.is_S(v0)))
        if name in ('int', 'float'):
            x = Val.n(v0)
            if name == 'int':
                tr_ = z3.If(x >= 0, z3.ToReal(z3.ToInt(x)), -z3.ToReal(z3.ToInt(-x)))
            else:
                tr_ = x
            r = z3.If(Val.is_B(v0), z3.If(Val.b(v0), z3.RealVal(1), z3.RealVal(0)), tr_)
            return Val.N(r), z3.And(d, z3.Or(Val.is_B(v0), Val.is_N(v0)))
        if name == 'str':
            self.uses_uf = True
            r = z3.If(Val.is_S(v0), Val.s(v0), STRF(v0))
            return Val.S(r), d
        if name in ('ceil', 'floor'):
            x = Val.n(v0)
            fl = z3.ToReal(z3.ToInt(x))
            r = fl if name == 'floor' else z3.If(fl == x, fl, fl + 1)
            return Val.N(r), z3.And(d, Val.is_N(v0))
        # uninterpreted numeric functions (equal arguments => equal results)
        self.uses_uf = True
        xs = []
        for v, _ in vs:
            d = z3.And(d, Val.is_N(v))
            xs.append(Val.n(v))
        if name == 'sqrt':
            d = z3.And(d, xs[0] >= 0)
        if name in ('roll', 'pitch', 'yaw') and len(vs) == 1:
            f = z3.Function(f'f_{name}_msg', Val, z3.RealSort())
            return Val.N(f(v0)), vs[0][1]
        app = uf(name, len(xs))(*xs)
        self.uf_apps.append((name, list(xs), app))
        # exact points that constant folding and the divisor test rely on (Python's math agrees exactly at these arguments)
        if len(xs) == 1:
            zero_at = {'sqrt': 0, 'sin': 0, 'tan': 0, 'asin': 0, 'atan': 0, 'log': 1, 'acos': 1}.get(name)
            if zero_at is not None:
                self.assumptions.append(z3.Implies(xs[0] == zero_at, app == 0))
            if name == 'sqrt':
                self.assumptions.append(z3.Implies(xs[0] >= 0, z3.And(app >= 0, z3.Implies(app == 0, xs[0] == 0))))
                self.assumptions.append(z3.Implies(xs[0] == 1, app == 1))
            if name == 'cos':
                self.assumptions.append(z3.Implies(xs[0] == 0, app == 1))
        return Val.N(app), d


# ---------------------------------------------------------------------------
# z3 model -> Heap (for replay through pyeval)
# ---------------------------------------------------------------------------

def _val_to_py(model, t):
    t = model.eval(t, model_completion=True)
    d = t.decl().name()
    if d == 'B':
        return z3.is_true(t.arg(0))
    if d == 'N':
        x = t.arg(0)
        if z3.is_rational_value(x):
            return Fraction(x.numerator_as_long(), x.denominator_as_long())
        raise Undef(f'irrational model value {x}')
    if d == 'S':
        return t.arg(0).as_string()
    if d == 'M':
        return Msg(t.arg(0).as_long())
    if d == 'A':
        return Arr(t.arg(0).as_long())
    raise Undef(f'cannot read model value {t}')


class ModelHeap(Heap):
    def __init__(self, model, tr: Z3Tr):
        self.model = model
        self.trn = tr
        self.reading = tr.reading

    def this(self):
        return Msg(self.model.eval(self.trn.this, model_completion=True).as_long())

    def alias(self, name):
        return _val_to_py(self.model, self.trn.alias_term(name))

    def field(self, msg, name):
        return _val_to_py(self.model, fld(name)(z3.IntVal(msg.id)))

    def alen(self, arr):
        return self.model.eval(ALEN(z3.IntVal(arr.id)), model_completion=True).as_long()

    def aelem(self, arr, i):
        return _val_to_py(self.model, AELEM(z3.IntVal(arr.id), z3.IntVal(i)))

    def rlist(self, lo, hi, exmin, exmax):
        l, h = real_const(lo), real_const(hi)
        em, eM = z3.BoolVal(bool(exmin)), z3.BoolVal(bool(exmax))
        n = self.model.eval(RLEN(l, h, em, eM), model_completion=True).as_long()
        out = []
        for i in range(n):
            x = self.model.eval(RELEM(l, h, em, eM, z3.IntVal(i)), model_completion=True)
            out.append(Fraction(x.numerator_as_long(), x.denominator_as_long()))
        return out


def describe_model(model, tr: Z3Tr, exprs) -> Dict[str, Any]:
    """human-readable valuation of the reference paths occurring in exprs"""
    heap = ModelHeap(model, tr)
    out: Dict[str, Any] = {}

    def show(v):
        if isinstance(v, Fraction):
            return int(v) if v.denominator == 1 else f'{v.numerator}/{v.denominator}'
        if isinstance(v, Arr):
            try:
                return [show(heap.aelem(v, i)) for i in range(heap.alen(v))]
            except Exception:
                return repr(v)
        return v if isinstance(v, (bool, int, str)) else repr(v)

    def walk(e, bound):
        k = kind(e)
        if k in ('HplFieldAccess', 'HplArrayAccess', 'HplVarReference'):
            try:
                if not _mentions(e, bound):
                    out[str(e)] = show(pyeval(e, heap, {}))
            except Exception:
                pass
        for c in _kids(e):
            walk(c, bound | ({e.variable} if k == 'HplQuantifier' else set()))

    for e in exprs:
        walk(e, set())
    return out


def _kids(e):
    k = kind(e)
    if k == 'HplSet':
        return list(e.values)
    if k == 'HplRange':
        return [e.min_value, e.max_value]
    if k == 'HplUnaryOperator':
        return [e.operand]
    if k == 'HplBinaryOperator':
        return [e.operand1, e.operand2]
    if k == 'HplFunctionCall':
        return list(e.arguments)
    if k == 'HplQuantifier':
        return [e.domain, e.condition]
    if k == 'HplFieldAccess':
        return [e.message]
    if k == 'HplArrayAccess':
        return [e.array, e.index]
    return []


def _mentions(e, names) -> bool:
    if kind(e) == 'HplVarReference' and e.token[1:] in names:
        return True
    return any(_mentions(c, names) for c in _kids(e))


def invariant_subterms(body, names):
    """maximal item-valued subexpressions of `body` that mention none of the variables `names`
    (a strict evaluator may hoist them out of the quantifier, so they must be defined even over an empty domain)"""
    out = []

    def walk(n, bound):
        k = kind(n)
        if k not in ('HplSet', 'HplRange') and not _mentions(n, bound):
            out.append(n)
            return
        for c in _kids(n):
            walk(c, bound | ({n.variable} if k == 'HplQuantifier' else set()))

    walk(body, set(names))
    return out


def walk_nodes(e):
    """preorder over expression nodes via attrs fields (independent of children()/iterate())"""
    yield e
    for c in _kids(e):
        yield from walk_nodes(c)


def free_vars(e, bound=frozenset()):
    """names of @variables occurring free (independent oracle for external_references)"""
    k = kind(e)
    if k == 'HplVarReference':
        n = e.token[1:]
        return set() if n in bound else {n}
    out = set()
    if k == 'HplQuantifier':
        out |= free_vars(e.domain, bound)
        out |= free_vars(e.condition, bound | {e.variable})
        return out
    for c in _kids(e):
        out |= free_vars(c, bound)
    return out


def mentions_var(e, name) -> bool:
    """@name occurs anywhere (bound or free)"""
    return any(kind(n) == 'HplVarReference' and n.token[1:] == name for n in walk_nodes(e))
