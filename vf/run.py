"""Dispatcher: python -m vf.run <ID> [quick|thorough] | --replay <file>"""
import importlib
import json
import os
import sys

from vf.common import EXIT_INCONCLUSIVE, run_guarded


def main(argv):
    if not argv:
        print('usage: check <ID> [quick|thorough] | --replay <file>')
        return EXIT_INCONCLUSIVE
    if argv[0] == '--replay':
        data = json.loads(open(argv[1]).read())
        mod = importlib.import_module(f'vf.checks.{data["property"].lower()}')
        return run_guarded(lambda: mod.replay(data))
    pid = argv[0].upper()
    if len(argv) > 1 and argv[1] in ('quick', 'thorough'):
        os.environ['VERIF_TIER'] = argv[1]
    mod = importlib.import_module(f'vf.checks.{pid.lower()}')
    return run_guarded(mod.main)


if __name__ == '__main__':
    sys.exit(main(sys.argv[1:]))
