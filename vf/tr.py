"""TR engine: reference trace semantics of HPL properties (DESIGN.md 3.3), twice:

* ``z3_holds(prop, trace, reading)``  — a quantifier-free z3 formula over a symbolic timed trace of length k,
  generated from the REAL HplProperty object (fields read directly; predicates through vf.sem.Z3Tr);
* ``py_holds(prop, trace, reading)``  — a plain-Python evaluator over a concrete trace (replay of solver models).

Semantics (one message per position, non-decreasing real timestamps >= 0):
  window     globally: all positions, origin 0 | after p: positions after the first match s of p, origin time(s)
             until q: positions before the first match of q | after p until q: positions between the first p and the
             first q after it (q sees p's alias); reading 'A' = one activation, 'B' = re-activation after each closing q
  no b       no match of b in the window with t - origin <= T
  some b     a match of b in the window with t - origin <= T
  a causes b every match i of a in the window has a later match j of b in the window, t_j - t_i <= T (b sees a's alias)
  a forbids b  dual of causes
  b requires a every match j of b in the window has an earlier match i of a in the window, t_j - t_i <= T (a sees b's alias)
  A disjunctive event matches a message iff one alternative does; T = infinity when unbounded.
"""
from __future__ import annotations

import math
from fractions import Fraction
from typing import Any, Dict, List, Optional, Tuple

import z3

from vf import sem
from vf.sem import Val, Z3Tr


def alternatives(ev) -> List[Any]:
    if ev is None:
        return []
    if type(ev).__name__ == 'HplEventDisjunction':
        return alternatives(ev.event1) + alternatives(ev.event2)
    return [ev]


def topics_of(props) -> List[str]:
    names = set()
    for p in props:
        for ev in (p.scope.activator, p.scope.terminator, p.pattern.trigger, p.pattern.behaviour):
            for e in alternatives(ev):
                names.add(e.name)
    return sorted(names)


class SymTrace:
    def __init__(self, k: int, topics: List[str], extra_topics: int = 1, tag: str = ''):
        self.k = k
        self.topics = topics
        self.ntopics = len(topics) + extra_topics
        self.topic = [z3.Int(f'topic{tag}_{i}') for i in range(k)]
        self.time = [z3.Real(f'time{tag}_{i}') for i in range(k)]
        self.cons = []
        for i in range(k):
            self.cons.append(z3.And(self.topic[i] >= 0, self.topic[i] < self.ntopics))
            self.cons.append(self.time[i] >= (self.time[i - 1] if i else 0))
        self.K = 2
        self.assumptions: List[Any] = []

    def match(self, ev, i: int, env: Dict[str, int]):
        """simple or disjunctive real event object matches position i under alias bindings env (alias -> position)"""
        alts = []
        for e in alternatives(ev):
            t = z3.IntVal(self.topics.index(e.name))
            cond = self.topic[i] == t
            if not e.predicate.is_vacuous:
                tr = Z3Tr(K=self.K, this=z3.IntVal(i), aliases={a: Val.M(z3.IntVal(j)) for a, j in env.items()})
                v, d = tr.tr(e.predicate.condition)
                self.assumptions += tr.assumptions
                cond = z3.And(cond, d, Val.is_B(v), Val.b(v))
            elif not e.predicate.is_true:
                cond = z3.BoolVal(False)
            alts.append(cond)
        return z3.Or(*alts) if alts else z3.BoolVal(False)


def _bind(ev, i: int, env: Dict[str, int]) -> Dict[str, int]:
    """aliases bound by a match of ev at position i. With several alternatives each alias is bound to i
    (only used when all alternatives that can be referenced bind the same message: position i)"""
    out = dict(env)
    for e in alternatives(ev):
        if e.alias:
            out[e.alias] = i
    return out


def z3_holds(prop, tr: SymTrace, reading: str = 'A'):
    k = tr.k
    sc, pt = prop.scope, prop.pattern
    T = pt.max_time
    bounded = not math.isinf(T)
    Tz = sem.real_const(T) if bounded else None
    kind = pt.pattern_type.name

    def within(dt):
        return (dt <= Tz) if bounded else z3.BoolVal(True)

    def pattern(win: List[Any], origin, env: Dict[str, int]):
        """win[i]: Bool guard 'position i is inside the window'"""
        b, a = pt.behaviour, pt.trigger
        if kind == 'ABSENCE':
            return z3.And(*[z3.Implies(z3.And(win[i], tr.match(b, i, env)), z3.Not(within(tr.time[i] - origin))) for i in range(k)])
        if kind == 'EXISTENCE':
            return z3.Or(*[z3.And(win[i], tr.match(b, i, env), within(tr.time[i] - origin)) for i in range(k)])
        if kind in ('RESPONSE', 'PREVENTION'):
            parts = []
            for i in range(k):
                env2 = _bind(a, i, env)
                later = [z3.And(win[j], tr.match(b, j, env2), within(tr.time[j] - tr.time[i])) for j in range(i + 1, k)]
                ex = z3.Or(*later) if later else z3.BoolVal(False)
                parts.append(z3.Implies(z3.And(win[i], tr.match(a, i, env)), ex if kind == 'RESPONSE' else z3.Not(ex)))
            return z3.And(*parts)
        if kind == 'REQUIREMENT':
            parts = []
            for j in range(k):
                env2 = _bind(b, j, env)
                earlier = [z3.And(win[i], tr.match(a, i, env2), within(tr.time[j] - tr.time[i])) for i in range(j)]
                parts.append(z3.Implies(z3.And(win[j], tr.match(b, j, env)), z3.Or(*earlier) if earlier else z3.BoolVal(False)))
            return z3.And(*parts)
        raise ValueError(kind)

    st = sc.scope_type.name
    if st == 'GLOBAL':
        return pattern([z3.BoolVal(True)] * k, z3.RealVal(0), {})
    if st == 'UNTIL':
        q = sc.terminator
        mq = [tr.match(q, i, {}) for i in range(k)]
        win = [z3.And(*[z3.Not(mq[j]) for j in range(i + 1)]) for i in range(k)]  # strictly before the first q
        return pattern(win, z3.RealVal(0), {})
    p = sc.activator
    q = sc.terminator

    def activations(start: int):
        """conjunction over possible first activations s >= start"""
        if start >= k:
            return z3.BoolVal(True)
        parts = []
        mp = [tr.match(p, i, {}) for i in range(k)]
        for s in range(start, k):
            first = z3.And(mp[s], *[z3.Not(mp[j]) for j in range(start, s)])
            env = _bind(p, s, {})
            if st == 'AFTER':
                win = [z3.BoolVal(i > s) for i in range(k)]
                parts.append(z3.Implies(first, pattern(win, tr.time[s], env)))
            else:
                mq = [tr.match(q, i, env) if i > s else z3.BoolVal(False) for i in range(k)]
                win = [z3.And(z3.BoolVal(i > s), *[z3.Not(mq[j]) for j in range(s + 1, i + 1)]) for i in range(k)]
                body = pattern(win, tr.time[s], env)
                if reading == 'B':
                    re = []
                    for e in range(s + 1, k):
                        closes = z3.And(mq[e], *[z3.Not(mq[j]) for j in range(s + 1, e)])
                        re.append(z3.Implies(closes, activations(e + 1)))
                    body = z3.And(body, *re)
                parts.append(z3.Implies(first, body))
        return z3.And(*parts)

    return activations(0)


# ---------------------------------------------------------------------------
# concrete evaluator (independent code path; used to replay models)
# ---------------------------------------------------------------------------

class ConcreteTrace:
    """messages: list of dicts {'topic': str, 'time': Fraction, 'fields': {name: value}}"""

    def __init__(self, messages):
        self.m = messages

    def heap(self, i: int, env: Dict[str, int]):
        return sem.DictHeap(self.m[i]['fields'], aliases={a: self.m[j]['fields'] for a, j in env.items()})


def py_match(ev, trace: ConcreteTrace, i: int, env: Dict[str, int]) -> bool:
    for e in alternatives(ev):
        if trace.m[i]['topic'] != e.name:
            continue
        if e.predicate.is_vacuous:
            if e.predicate.is_true:
                return True
            continue
        try:
            if sem.pyeval(e.predicate.condition, trace.heap(i, env), {}) is True:
                return True
        except sem.Undef:
            pass
    return False


def py_holds(prop, trace: ConcreteTrace, reading: str = 'A') -> bool:
    k = len(trace.m)
    sc, pt = prop.scope, prop.pattern
    T = pt.max_time
    kind = pt.pattern_type.name
    time = [m['time'] for m in trace.m]

    def within(dt) -> bool:
        return math.isinf(T) or dt <= Fraction(T)

    def pattern(win: List[int], origin, env) -> bool:
        b, a = pt.behaviour, pt.trigger
        if kind == 'ABSENCE':
            return not any(py_match(b, trace, i, env) and within(time[i] - origin) for i in win)
        if kind == 'EXISTENCE':
            return any(py_match(b, trace, i, env) and within(time[i] - origin) for i in win)
        if kind in ('RESPONSE', 'PREVENTION'):
            for i in win:
                if py_match(a, trace, i, env):
                    env2 = _bind(a, i, env)
                    ex = any(j > i and py_match(b, trace, j, env2) and within(time[j] - time[i]) for j in win)
                    if ex != (kind == 'RESPONSE'):
                        return False
            return True
        for j in win:
            if py_match(b, trace, j, env):
                env2 = _bind(b, j, env)
                if not any(i < j and py_match(a, trace, i, env2) and within(time[j] - time[i]) for i in win):
                    return False
        return True

    st = sc.scope_type.name
    if st == 'GLOBAL':
        return pattern(list(range(k)), Fraction(0), {})
    if st == 'UNTIL':
        end = k
        for i in range(k):
            if py_match(sc.terminator, trace, i, {}):
                end = i
                break
        return pattern(list(range(end)), Fraction(0), {})
    start = 0
    while True:
        s = None
        for i in range(start, k):
            if py_match(sc.activator, trace, i, {}):
                s = i
                break
        if s is None:
            return True
        env = _bind(sc.activator, s, {})
        if st == 'AFTER':
            return pattern(list(range(s + 1, k)), time[s], env)
        e = k
        for i in range(s + 1, k):
            if py_match(sc.terminator, trace, i, env):
                e = i
                break
        if not pattern(list(range(s + 1, e)), time[s], env):
            return False
        if reading == 'A' or e >= k:
            return True
        start = e + 1


def model_trace(model, tr: SymTrace, fields=('x', 'y', 'p')) -> ConcreteTrace:
    msgs = []
    for i in range(tr.k):
        ti = model.eval(tr.topic[i], model_completion=True).as_long()
        tm = model.eval(tr.time[i], model_completion=True)
        fl = {}
        for f in fields:
            v = model.eval(sem.fld(f)(z3.IntVal(i)), model_completion=True)
            try:
                fl[f] = sem._val_to_py(model, v)
            except Exception:
                pass
        # messages/arrays inside payloads are not used by the C12 predicate families
        fl = {k: v for k, v in fl.items() if isinstance(v, (bool, int, Fraction, str))}
        msgs.append({'topic': tr.topics[ti] if ti < len(tr.topics) else f'other{ti}',
                     'time': Fraction(tm.numerator_as_long(), tm.denominator_as_long()), 'fields': fl})
    return ConcreteTrace(msgs)
