"""Frozen REFERENCE grammar of HPL at token level: the documented syntax (README / docs / statements of C01, C18),
written independently of src/hpl/grammars. Expression levels are compiled by generic code from the precedence table.

Token names are those the lexer delivers (terminal names of the live lexer); '-' is MINUS_OPERATOR in operand position and
ADD_OPERATOR between operands; '[' and ']' of an index are the inclusive range brackets.
"""
from __future__ import annotations

from typing import Dict, List, Tuple

from vf.gx import Cfg

# loosest first; every binary level is left-associative except the relational one (no chaining)
PRECEDENCE = [
    ('binary-left', ['IF_OPERATOR']),          # implies, iff
    ('binary-left', ['OR_OPERATOR']),
    ('binary-left', ['AND_OPERATOR']),
    ('prefix-logic', None),                    # not X | quantifier ... : X | (next level)
    ('binary-nonassoc', ['RELATIONAL_OPERATOR']),
    ('binary-left', ['ADD_OPERATOR']),
    ('binary-left', ['MULT_OPERATOR']),
    ('binary-left', ['POWER_OPERATOR']),
    ('prefix-minus', None),                    # - X | atom | ( condition )
]


def expression_rules() -> List[Tuple[str, Tuple[str, ...]]]:
    R: List[Tuple[str, Tuple[str, ...]]] = []
    n = len(PRECEDENCE)

    def lvl(i):
        return f'E{i}'
    for i, (kind, ops) in enumerate(PRECEDENCE):
        me, nxt = lvl(i), lvl(i + 1) if i + 1 < n else None
        if kind == 'binary-left':
            R.append((me, (nxt,)))
            for op in ops:
                R.append((me, (me, op, nxt)))
        elif kind == 'binary-nonassoc':
            R.append((me, (nxt,)))
            for op in ops:
                R.append((me, (nxt, op, nxt)))
        elif kind == 'prefix-logic':
            R.append((me, (nxt,)))
            R.append((me, ('NOT_OPERATOR', me)))
            R.append((me, ('QUANT_OPERATOR', 'CNAME', '_KW_IN', 'ATOM', 'COLON', me)))
        elif kind == 'prefix-minus':
            R.append((me, ('ATOM',)))
            R.append((me, ('MINUS_OPERATOR', me)))
            R.append((me, ('LPAR', 'E0', 'RPAR')))
    arith = 'E5'  # the additive level: what function arguments, set elements, range bounds and indices are
    assert PRECEDENCE[5][1] == ['ADD_OPERATOR']
    for t in ('TRUE', 'FALSE', 'ESCAPED_STRING', 'CONSTANT', 'NUMBER'):
        R.append(('ATOM', (t,)))
    R.append(('ATOM', ('CNAME', 'LPAR', arith, 'RPAR')))           # function call, one argument
    R.append(('ATOM', ('LBRACE', 'ELEMS', 'RBRACE')))              # enumerated set
    R.append(('ELEMS', (arith,)))
    R.append(('ELEMS', ('ELEMS', 'COMMA', arith)))
    for lb in ('L_RANGE_EXC', 'L_RANGE_INC'):
        for rb in ('R_RANGE_EXC', 'R_RANGE_INC'):
            R.append(('ATOM', (lb, arith, '_KW_TO', arith, rb)))
    R.append(('ATOM', ('REF',)))
    R.append(('REF', ('VAR_REF',)))
    R.append(('REF', ('CNAME',)))
    R.append(('REF', ('REF', 'DOT', 'CNAME')))
    R.append(('REF', ('REF', 'L_RANGE_INC', arith, 'R_RANGE_INC')))
    return R


def property_rules() -> List[Tuple[str, Tuple[str, ...]]]:
    R = expression_rules()
    R.append(('PRED', ('LBRACE', 'E0', 'RBRACE')))
    for alias in ((), ('_KW_AS', 'CNAME')):
        for pred in ((), ('PRED',)):
            R.append(('SIMPLE', ('CHANNEL_NAME',) + alias + pred))
    R.append(('EVENT', ('SIMPLE',)))
    R.append(('EVENT', ('LPAR', 'ALTS', 'RPAR')))
    R.append(('ALTS', ('SIMPLE', '_KW_OR', 'SIMPLE')))
    R.append(('ALTS', ('ALTS', '_KW_OR', 'SIMPLE')))
    R.append(('SCOPE', ('_KW_GLOBALLY',)))
    R.append(('SCOPE', ('_KW_AFTER', 'EVENT')))
    R.append(('SCOPE', ('_KW_AFTER', 'EVENT', '_KW_UNTIL', 'EVENT')))
    R.append(('SCOPE', ('_KW_UNTIL', 'EVENT')))
    for time in ((), ('_KW_WITHIN', 'NUMBER', 'TIME_UNIT')):
        R.append(('PATTERN', ('_KW_SOME', 'EVENT') + time))
        R.append(('PATTERN', ('_KW_NO', 'EVENT') + time))
        for kw in ('_KW_CAUSES', '_KW_FORBIDS', '_KW_REQUIRES'):
            R.append(('PATTERN', ('EVENT', kw, 'EVENT') + time))
    R.append(('META', ('HASH', 'ITEM')))
    R.append(('META', ('META', 'HASH', 'ITEM')))
    R.append(('ITEM', ('ID', 'COLON', 'CNAME')))
    R.append(('ITEM', ('TITLE', 'COLON', 'ESCAPED_STRING')))
    R.append(('ITEM', ('DESCRIPTION', 'COLON', 'ESCAPED_STRING')))
    R.append(('PROPERTY', ('SCOPE', 'COLON', 'PATTERN')))
    R.append(('PROPERTY', ('META', 'SCOPE', 'COLON', 'PATTERN')))
    R.append(('FILE', ('PROPERTY',)))
    R.append(('FILE', ('FILE', 'PROPERTY')))
    return R


def terminals_of(rules) -> set:
    lhs = {l for l, _ in rules}
    return {s for _, rhs in rules for s in rhs if s not in lhs}


def reference(start: str) -> Cfg:
    """start in: expression | predicate | property | file"""
    if start in ('expression', 'predicate'):
        R = expression_rules()
        R.append(('PRED', ('LBRACE', 'E0', 'RBRACE')))
        return Cfg('E0' if start == 'expression' else 'PRED', R, terminals_of(R))
    R = property_rules()
    return Cfg('PROPERTY' if start == 'property' else 'FILE', R, terminals_of(R))
