"""Shared helpers for the checks on hpl.rewrite (C08, C09, C10, C13, C14)."""
from __future__ import annotations

import traceback
from typing import Any, Dict, List, Optional, Tuple

from vf import eq, gen, sem

REPO_SRC = '/repo/src/'


def exc_site(e: BaseException) -> str:
    """innermost frame inside the repository's sources: 'function' (stable against line shifts)"""
    tb = traceback.extract_tb(e.__traceback__)
    site = '?'
    for fr in tb:
        if fr.filename.startswith(REPO_SRC):
            site = fr.name
    return site


def exc_signature(e: BaseException) -> str:
    return f'exc:{type(e).__name__}@{exc_site(e)}'


def rebuild(node):
    """re-run every constructor (validators, converters) bottom-up; raises if the tree is not a valid AST"""
    import attrs
    from hpl.ast.base import HplAstObject
    if not isinstance(node, HplAstObject):
        return node
    kw = {}
    for f in attrs.fields(type(node)):
        if not f.init:
            continue
        v = getattr(node, f.name)
        if isinstance(v, HplAstObject):
            v = rebuild(v)
        elif isinstance(v, tuple):
            v = tuple(rebuild(x) for x in v)
        kw[f.name.lstrip('_')] = v
    return type(node)(**kw)


def check_valid(node) -> Optional[str]:
    """None if `node` survives reconstruction through its own constructors unchanged, else a description"""
    try:
        r = rebuild(node)
    except Exception as e:
        return f'{type(e).__name__}: {str(e)[:150]}'
    if r != node:
        return 'reconstruction through the constructors gives a different tree'
    if hasattr(node, 'data_type') and r.data_type != node.data_type:
        return f'stored type {node.data_type!r} but constructors give {r.data_type!r}'
    return None


def allowed_simplify_failure(ast) -> Optional[bool]:
    """the statement's two licences to raise: identically-zero divisor, or undefined constant subexpression"""
    if eq.has_undefined_constant(ast):
        return True
    return eq.zero_divisor_somewhere(ast)


def build_or_none(spec):
    """(ast|None, note): TypeError at construction = ill-typed spec (skipped); anything else is reported"""
    try:
        return gen.build(spec), None
    except TypeError:
        return None, 'illtyped'
    except Exception as e:
        return None, f'build:{exc_signature(e)}'
