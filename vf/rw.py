"""Shared helpers for the checks on hpl.rewrite (C08, C09, C10, C13, C14)."""
from __future__ import annotations

import traceback
from typing import Any, Dict, List, Optional, Tuple

from vf import eq, gen, sem

REPO_SRC = '/repo/src/'


def exc_site(e: BaseException) -> str:
    """innermost frame inside the repository's sources: 'function' (stable against line shifts)"""
    tb = traceback.extract_tb(e.__traceback__)
    site = '?'
    for fr in tb:
        if fr.filename.startswith(REPO_SRC) or '/src/hpl/' in fr.filename:
            site = fr.name
    return site


def exc_signature(e: BaseException) -> str:
    return f'exc:{type(e).__name__}@{exc_site(e)}'


def rebuild(node, fresh_metadata: bool = False):
    """re-run every constructor (validators, converters) bottom-up; raises if the tree is not a valid AST"""
    import attrs
    from hpl.ast.base import HplAstObject
    if not isinstance(node, HplAstObject):
        return node
    kw = {}
    for f in attrs.fields(type(node)):
        if not f.init:
            continue
        v = getattr(node, f.name)
        if isinstance(v, HplAstObject):
            v = rebuild(v, fresh_metadata)
        elif isinstance(v, tuple):
            v = tuple(rebuild(x, fresh_metadata) for x in v)
        elif fresh_metadata and f.name == 'metadata':
            v = {}
        kw[f.name.lstrip('_')] = v
    return type(node)(**kw)


def derived_variants(ast):
    """trees derived from `ast` with but() (the documented way to copy with changes): operands swapped, a negation added or removed,
    a quantifier's condition negated — each a DIFFERENT expression that inherits whatever but() copies from `ast`"""
    from hpl.ast.expressions import Not
    k = type(ast).__name__
    out = []
    try:
        if k == 'HplBinaryOperator' and ast.operand1 != ast.operand2:
            out.append(('operands swapped', ast.but(operand1=ast.operand2, operand2=ast.operand1)))
        elif k == 'HplUnaryOperator' and ast.operator.token == 'not':
            out.append(('double negation', ast.but(operand=Not(ast.operand))))
        elif k == 'HplQuantifier':
            out.append(('condition negated', ast.but(condition=Not(ast.condition))))
    except (TypeError, ValueError):
        pass
    return out


def history_dependence(f, ast, same=lambda a, b: a == b, holds=None):
    """None, or a description. f is applied to `ast`, then to trees derived from it with but(), and to freshly constructed equal trees.
    A difference between the two answers is only a SYMPTOM; it is reported when the answer for the derived tree violates the property
    itself — `holds(derived_input, result)` (the caller's oracle) is False — or when f raises only because of the history."""
    def run(x):
        try:
            return ('ret', f(x))
        except Exception as e:
            return ('raise', type(e).__name__)
    first = run(ast)
    again = run(ast)
    if first[0] == 'ret' and again[0] == 'raise':
        return f'called twice on the same object: returns at first, raises {again[1]} the second time'
    for desc, d in derived_variants(ast):
        try:
            fresh_in = rebuild(d, fresh_metadata=True)
        except Exception:
            continue
        hist, fresh = run(d), run(fresh_in)
        if hist[0] == 'raise' and fresh[0] == 'ret':
            return f'derived tree ({desc}) «{d}»: raises {hist[1]} after the original was processed, returns for a freshly built equal tree'
        if hist[0] == 'ret' and fresh[0] == 'ret' and not same(hist[1], fresh[1]):
            ok = holds(d, hist[1]) if holds is not None else False
            if ok is False:
                return f'derived tree ({desc}) «{d}»: answer {_show(hist[1])} after the original was processed ({_show(fresh[1])} for a freshly built equal tree) violates the property'
    return None


def _show(r):
    if isinstance(r, (list, tuple)):
        return '[' + ', '.join(str(x) for x in r) + ']'
    return str(r)


def check_valid(node) -> Optional[str]:
    """None if `node` survives reconstruction through its own constructors unchanged, else a description"""
    try:
        r = rebuild(node)
    except Exception as e:
        return f'{type(e).__name__}: {str(e)[:150]}'
    if r != node:
        return 'reconstruction through the constructors gives a different tree'
    if hasattr(node, 'data_type') and r.data_type != node.data_type:
        return f'stored type {node.data_type!r} but constructors give {r.data_type!r}'
    return None


def allowed_simplify_failure(ast) -> Optional[bool]:
    """the statement's licence to raise: an undefined constant subexpression — syntactically closed, or valuation-independent as proved by z3
    (identically-zero divisor; a call / division / power that is undefined on every valuation)"""
    if eq.has_undefined_constant(ast):
        return True
    z = eq.zero_divisor_somewhere(ast)
    if z:
        return True
    n = eq.never_defined_somewhere(ast)
    if n:
        return True
    return None if (z is None or n is None) else False


def build_or_none(spec):
    """(ast|None, note): TypeError at construction = ill-typed spec (skipped); anything else is reported"""
    try:
        return gen.build(spec), None
    except TypeError:
        return None, 'illtyped'
    except Exception as e:
        return None, f'build:{exc_signature(e)}'


def run_cases(ck, fams, worker, label='EQ', K=2, chunk=150):
    """drive worker(chunk)->[(spec, (status, sig, what, rep), secs)] over families; tally into the Check"""
    import time
    from vf import par
    stats = {}
    total = 0
    nontrivial = set()
    for fname, specs in fams.items():
        t0 = time.time()
        results = [x for c in par.pmap_chunks(worker, specs, chunk) for x in c]
        st = {}
        for spec, (status, sig, what, rep), secs in results:
            st[status] = st.get(status, 0) + 1
            total += 1
            if status == 'ok':
                ck.obligation(True)
                ck.query('unsat', rep or 0.0)
                nontrivial.add(spec)
            elif status == 'identity':
                ck.obligation(True)  # output structurally equal to the input: nothing to decide
            elif status == 'vacuous':
                ck.obligation(True)
                ck.query('unsat', rep or 0.0)
            elif status == 'finding':
                ck.obligation(False)
                if sig.startswith('not-equivalent'):
                    ck.query('sat')
                ck.counterexample(sig, what, rep)
            elif status == 'unknown':
                ck.query('unknown')
                if 'random' in fname:
                    # seed-selected ADDITIONAL tree that the solver could not decide: excluded from the claim, listed in the evidence
                    ck.coverage.setdefault('undecided_seeded_trees', []).append(str(what)[:200])
                else:
                    ck.obligation(None)
                    ck.undecided(what)
        st['wall_s'] = round(time.time() - t0, 1)
        stats[fname] = st
        if specs:
            mid = specs[len(specs) // 2]
            ck.sample({'family': fname, 'tree': ('simplify of ' + gen.render(mid[1])) if mid[0] == 'simplified' else gen.render(mid)})
    ck.engine(label, families=stats, trees=total, array_slots_K=K)
    return total, len(nontrivial)


def make_worker(case):
    import time
    from vf.common import short

    def worker(chunk):
        out = []
        for spec in chunk:
            t = time.time()
            try:
                res = case(spec)
            except Exception as e:  # harness trouble: inconclusive, never a verdict
                res = ('unknown', None, f'harness exception on {spec}: {type(e).__name__}: {short(e, 150)}', None)
            out.append((spec, res, time.time() - t))
        return out
    return worker


def tuplify(x):
    return tuple(tuplify(i) for i in x) if isinstance(x, (list, tuple)) else x
