"""GX engine: bounded grammar obligations — CYK-style derivability of a SYMBOLIC token string encoded for z3.

* the LIVE rule set: `Lark.rules` (the EBNF-expanded rules the LALR table is built from) of the real parser objects;
* a frozen REFERENCE grammar (vf/refgrammar.py): the documented syntax, with the expression levels compiled from an
  explicit precedence/associativity table.
For every length n <= N one query asks for a token string of length n that one grammar derives and the other does not.
A witness is rendered to text and parsed by the real parser (replay).
"""
from __future__ import annotations

import time
from typing import Any, Dict, List, Optional, Sequence, Set, Tuple

import z3


class Cfg:
    def __init__(self, start: str, rules: List[Tuple[str, Tuple[str, ...]]], terminals: Set[str]):
        self.start = start
        self.rules = rules
        self.terminals = set(terminals)
        self.nonterminals = {l for l, _ in rules}
        self.by_lhs: Dict[str, List[int]] = {}
        for i, (l, _) in enumerate(rules):
            self.by_lhs.setdefault(l, []).append(i)
        self.nullable = self._nullable()
        self._check_same_span_acyclic()

    def _nullable(self) -> Set[str]:
        nu: Set[str] = set()
        changed = True
        while changed:
            changed = False
            for l, rhs in self.rules:
                if l not in nu and all(s in nu for s in rhs):
                    nu.add(l)
                    changed = True
        return nu

    def _check_same_span_acyclic(self):
        """A depends on B for the SAME span when A -> alpha B beta with alpha, beta nullable; must be acyclic (no unit cycles)"""
        dep: Dict[str, Set[str]] = {n: set() for n in self.nonterminals}
        for l, rhs in self.rules:
            for i, s in enumerate(rhs):
                if s in self.nonterminals and all(x in self.nullable for x in rhs[:i] + rhs[i + 1:]):
                    dep[l].add(s)
        state: Dict[str, int] = {}

        def visit(n):
            if state.get(n) == 1:
                raise ValueError(f'unit cycle through {n}: the bounded encoding would not be exact')
            if state.get(n) == 2:
                return
            state[n] = 1
            for m in dep[n]:
                visit(m)
            state[n] = 2
        for n in self.nonterminals:
            visit(n)

    @staticmethod
    def from_lark(lark, start: str) -> 'Cfg':
        rules = []
        terms = set()
        for r in lark.rules:
            rhs = tuple(s.name for s in r.expansion)
            for s in r.expansion:
                if s.is_term:
                    terms.add(s.name)
            rules.append((r.origin.name if isinstance(r.origin.name, str) else str(r.origin.name), rhs))
        return Cfg(start, rules, terms)


class Encoder:
    """derivability of tokens[i:j] from each symbol, as hash-consed z3 terms"""

    def __init__(self, cfg: Cfg, tok: List[Any], tindex: Dict[str, int]):
        self.cfg = cfg
        self.tok = tok
        self.tindex = tindex
        self.memo: Dict[Any, Any] = {}

    def sym(self, s: str, i: int, j: int):
        if s in self.cfg.terminals or s not in self.cfg.nonterminals:
            if j != i + 1:
                return z3.BoolVal(False)
            if s not in self.tindex:
                return z3.BoolVal(False)
            return self.tok[i] == self.tindex[s]
        key = ('N', s, i, j)
        if key in self.memo:
            return self.memo[key]
        if i == j:
            r = z3.BoolVal(s in self.cfg.nullable)
        else:
            r = z3.Or(*[self.rule(ri, len(self.cfg.rules[ri][1]), i, j) for ri in self.cfg.by_lhs[s]])
        self.memo[key] = r
        return r

    def rule(self, ri: int, p: int, i: int, j: int):
        """the first p symbols of rule ri derive tokens[i:j]"""
        key = ('R', ri, p, i, j)
        if key in self.memo:
            return self.memo[key]
        rhs = self.cfg.rules[ri][1]
        if p == 0:
            r = z3.BoolVal(i == j)
        else:
            x = rhs[p - 1]
            alts = []
            is_term = x not in self.cfg.nonterminals
            for m in range(i, j + 1):
                if is_term and m != j - 1:
                    continue
                if not is_term and m == j and x not in self.cfg.nullable:
                    continue
                left = self.rule(ri, p - 1, i, m)
                if z3.is_false(left):
                    continue
                right = self.sym(x, m, j)
                if z3.is_false(right):
                    continue
                alts.append(z3.And(left, right))
            r = z3.Or(*alts) if alts else z3.BoolVal(False)
        self.memo[key] = z3.simplify(r) if p == 0 else r
        return self.memo[key]


def compare(live: Cfg, ref: Cfg, n: int, timeout_ms: int = 120000):
    """z3: a token string of length exactly n derivable from one start symbol and not the other.
    returns (verdict, witness token names | None, which side derives it, seconds)"""
    alphabet = sorted(live.terminals | ref.terminals)
    tindex = {t: k for k, t in enumerate(alphabet)}
    tok = [z3.Int(f'tok_{i}') for i in range(n)]
    s = z3.Solver()
    s.set('timeout', timeout_ms)
    for t in tok:
        s.add(t >= 0, t < len(alphabet))
    el = Encoder(live, tok, tindex)
    er = Encoder(ref, tok, tindex)
    dl = el.sym(live.start, 0, n)
    dr = er.sym(ref.start, 0, n)
    s.add(dl != dr)
    t0 = time.time()
    r = s.check()
    dt = time.time() - t0
    if r == z3.unsat:
        return 'unsat', None, None, dt
    if r != z3.sat:
        return 'unknown', None, None, dt
    m = s.model()
    names = [alphabet[m.eval(t, model_completion=True).as_long()] for t in tok]
    side = 'live' if z3.is_true(m.eval(dl, model_completion=True)) else 'reference'
    return 'sat', names, side, dt


def derives(cfg: Cfg, names: Sequence[str]) -> bool:
    """concrete derivability (plain memoised recogniser over the same rule set) — validates the extracted rules on real token streams"""
    import functools
    import sys
    n = len(names)
    sys.setrecursionlimit(max(sys.getrecursionlimit(), 20000))

    @functools.lru_cache(maxsize=None)
    def sym(s: str, i: int, j: int) -> bool:
        if s not in cfg.nonterminals:
            return j == i + 1 and names[i] == s
        if i == j:
            return s in cfg.nullable
        return any(rule(ri, len(cfg.rules[ri][1]), i, j) for ri in cfg.by_lhs[s])

    @functools.lru_cache(maxsize=None)
    def rule(ri: int, p: int, i: int, j: int) -> bool:
        if p == 0:
            return i == j
        x = cfg.rules[ri][1][p - 1]
        if x not in cfg.nonterminals:
            return j > i and names[j - 1] == x and rule(ri, p - 1, i, j - 1)
        for m in range(i, j + 1):
            if m == j and x not in cfg.nullable:
                continue
            if m == i and p - 1 > 0 and not all(y in cfg.nullable for y in cfg.rules[ri][1][:p - 1]):
                continue
            if rule(ri, p - 1, i, m) and sym(x, m, j):
                return True
        return False

    return sym(cfg.start, 0, n)


BINARY_OPS = ('IF_OPERATOR', 'OR_OPERATOR', 'AND_OPERATOR', 'RELATIONAL_OPERATOR', 'ADD_OPERATOR', 'MULT_OPERATOR', 'POWER_OPERATOR')
UNARY_OPS = ('NOT_OPERATOR', 'MINUS_OPERATOR')


def bracketed(cfg: Cfg) -> Cfg:
    """the same grammar generating EXPLICIT structure: every application of a binary operator (rule X op Y), of a unary
    operator (op X) and of a quantifier is wrapped in OPEN ... CLOSE tokens. Two unambiguous grammars assign the same
    operator constituents (operand extents, hence precedence and associativity) to every token string iff their
    bracketed languages coincide. Application rules are recognised by SHAPE, not by rule name."""
    rules = []
    for l, rhs in cfg.rules:
        if len(rhs) == 3 and rhs[1] in BINARY_OPS:
            rules.append((l, ('OPEN',) + rhs + ('CLOSE',)))
        elif len(rhs) == 2 and rhs[0] in UNARY_OPS:
            rules.append((l, ('OPEN',) + rhs + ('CLOSE',)))
        elif len(rhs) >= 6 and rhs[0] == 'QUANT_OPERATOR':
            rules.append((l, ('OPEN',) + rhs + ('CLOSE',)))
        else:
            rules.append((l, rhs))
    return Cfg(cfg.start, rules, cfg.terminals | {'OPEN', 'CLOSE'})
