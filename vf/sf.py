"""SF engine: run the REAL function objects of hpl.types.DataType on z3 bit-vector proxies.

A SymFlag wraps a z3 BitVec(W) term. `&`, `|` build terms; `bool()` forks: the executor re-runs the function
under every feasible decision prefix (depth-first), pruning infeasible branches with z3. Each completed path
yields (path condition, outcome) where outcome is ('ret', value) or ('raise', exception class name).
"""
from __future__ import annotations

import time
from typing import Any, Callable, List, Tuple

import z3


class _Ctx:
    def __init__(self, width: int):
        self.width = width
        self.decisions: List[bool] = []
        self.pos = 0
        self.pc: List[Any] = []
        self.solver = z3.Solver()
        self.queries = 0
        self.solver_s = 0.0

    def feasible(self, extra) -> bool:
        t = time.time()
        self.solver.push()
        for c in self.pc:
            self.solver.add(c)
        self.solver.add(extra)
        r = self.solver.check()
        self.solver.pop()
        self.queries += 1
        self.solver_s += time.time() - t
        if r == z3.unknown:
            raise RuntimeError('z3 unknown in SF feasibility query')
        return r == z3.sat


_CTX: List[_Ctx] = []


class SymFlag:
    """Proxy for a DataType value whose 7 bits are a z3 term."""

    __slots__ = ('t',)

    def __init__(self, term):
        self.t = term

    @staticmethod
    def lift(x, width):
        if isinstance(x, SymFlag):
            return x.t
        v = getattr(x, 'value', x)
        if isinstance(v, int):
            return z3.BitVecVal(v, width)
        raise TypeError(f'cannot lift {x!r}')

    def _w(self):
        return self.t.size()

    def __and__(self, o):
        return SymFlag(self.t & SymFlag.lift(o, self._w()))

    __rand__ = __and__

    def __or__(self, o):
        return SymFlag(self.t | SymFlag.lift(o, self._w()))

    __ror__ = __or__

    def __xor__(self, o):
        return SymFlag(self.t ^ SymFlag.lift(o, self._w()))

    __rxor__ = __xor__

    def __invert__(self):
        return SymFlag(~self.t)

    def _fork(self, cond) -> bool:
        ctx = _CTX[-1]
        if ctx.pos < len(ctx.decisions):
            d = ctx.decisions[ctx.pos]
        else:
            # first visit: prefer True if feasible, else False
            if ctx.feasible(cond):
                d = True
            else:
                d = False
            ctx.decisions.append(d)
        ctx.pos += 1
        ctx.pc.append(cond if d else z3.Not(cond))
        return d

    def __bool__(self):
        return self._fork(self.t != 0)

    def __contains__(self, o):
        # enum.Flag: `other in self`  <=>  other & self == other
        other = SymFlag.lift(o, self._w())
        return self._fork((other & self.t) == other)


    def __eq__(self, o):
        try:
            other = SymFlag.lift(o, self._w())
        except TypeError:
            return False
        return self._fork(self.t == other)

    def __ne__(self, o):
        return not self.__eq__(o)

    def __hash__(self):
        return hash(str(self.t))

    def __str__(self):
        return f'<sym {self.t}>'

    __repr__ = __str__

    def __getattr__(self, name):
        # a SymFlag stored in an AST node must answer the DataType API: delegate to the REAL function objects
        from hpl.types import DataType
        import types as _types
        if name in ('_value_', 'value'):
            return self  # the bits themselves: &, |, == keep working on the term
        attr = DataType.__dict__.get(name)
        if isinstance(attr, property):
            return attr.fget(self)
        if isinstance(attr, _types.FunctionType):
            return _types.MethodType(attr, self)
        raise AttributeError(name)


def explore(fn: Callable[[], Any], width: int, pre=()) -> Tuple[List[Tuple[Any, Tuple[str, Any]]], _Ctx]:
    """Run fn() under all feasible decision sequences. Returns [(pc, outcome)], ctx (for stats)."""
    ctx = _Ctx(width)
    for c in pre:
        ctx.solver.add(c)  # precondition on the symbolic inputs: prunes infeasible branches
    _CTX.append(ctx)
    results = []
    try:
        prefix: List[bool] = []
        while True:
            ctx.decisions = list(prefix)
            ctx.pos = 0
            ctx.pc = []
            try:
                r = fn()
                outcome = ('ret', r)
            except Exception as e:  # the real code's own exceptions are outcomes
                outcome = ('raise', type(e).__name__)
            results.append((z3.And(*ctx.pc) if ctx.pc else z3.BoolVal(True), outcome))
            # backtrack: find last decision that was True and whose False branch is feasible & unexplored
            dec = ctx.decisions
            pcs = ctx.pc
            nxt = None
            i = len(dec) - 1
            while i >= 0:
                if dec[i]:
                    # try flipping decision i to False
                    saved_pc = pcs[:i]
                    cond_true = pcs[i]
                    ctx.pc = saved_pc
                    if ctx.feasible(z3.Not(cond_true)):
                        nxt = dec[:i] + [False]
                        break
                i -= 1
            if nxt is None:
                break
            prefix = nxt
    finally:
        _CTX.pop()
    return results, ctx


def valid(claim, assumptions=()) -> Tuple[str, Any, float]:
    """Validity query: is `assumptions => claim` true for all values? Returns (verdict, model|None, secs)."""
    s = z3.Solver()
    for a in assumptions:
        s.add(a)
    s.add(z3.Not(claim))
    t = time.time()
    r = s.check()
    dt = time.time() - t
    if r == z3.unsat:
        return 'unsat', None, dt
    if r == z3.sat:
        return 'sat', s.model(), dt
    return 'unknown', None, dt
