"""Enumerated tree families (small-scope, exhaustive) shared by the rewrite checks C08/C09/C10/C13/C14/C03/C16."""
from __future__ import annotations

import itertools
import random
from typing import Any, Dict, Iterable, List, Tuple

from vf import gen

X, Y, Z = ('f', 'x'), ('f', 'y'), ('f', 'z')
P, Q, R = ('f', 'p'), ('f', 'q'), ('f', 'r')
XS, YS, PS = ('f', 'xs'), ('f', 'ys'), ('f', 'ps')
AX, AY, AP = ('fa', ('var', 'A'), 'x'), ('fa', ('var', 'A'), 'y'), ('fa', ('var', 'A'), 'p')
AXS = ('fa', ('var', 'A'), 'xs')
BX = ('fa', ('var', 'B'), 'x')


def L(v):
    return ('lit', v)


ARITH = ('+', '-', '*', '/', '**')
CMP = ('=', '!=', '<', '<=', '>', '>=')
LOGIC = ('and', 'or', 'implies', 'iff')


def bins(ops, As, Bs):
    return [('bin', o, a, b) for o in ops for a in As for b in Bs]


def uniq(specs: Iterable[Any]) -> List[Any]:
    seen = set()
    out = []
    for s in specs:
        if s not in seen:
            seen.add(s)
            out.append(s)
    return out


def simplify_families(tier: str) -> Dict[str, List[Any]]:
    """families exercising every rule of hpl.rewrite.simplify with the literals its branches test (0, 1, -1, 10)"""
    fam: Dict[str, List[Any]] = {}
    thorough = tier == 'thorough'
    n0 = [X, AX, Y, L(0), L(1), L(-1), L(2), L(1.5)]  # self fields and alias fields are normalised differently
    n1 = n0 + bins(ARITH, n0, n0) + [('neg', a) for a in n0]
    fam['cmp-depth1'] = bins(CMP, n1, n0) + bins(CMP, n0, [n for n in n1 if n not in n0])
    m0 = [X, L(0), L(1), L(2), L(-1)] + ([Y] if thorough else [])
    m1 = m0 + bins(ARITH, m0, m0) + [('neg', a) for a in m0]
    m2 = bins(ARITH, m1, m0) + bins(ARITH, m0, [n for n in m1 if n not in m0]) + [('neg', a) for a in m1]
    fam['arith-depth2'] = [('bin', '=', a, Y) for a in m2] + [('bin', '<', Z, a) for a in m2[:: (1 if thorough else 3)]]
    fam['arith-bare'] = m2[:: (1 if thorough else 4)]
    # same-operator nests: the associativity/commutativity normalisation
    k0 = [X, Y, AX, L(1), L(2)]
    nest = []
    for o in ARITH:
        for a, b, c, d in itertools.product(k0, repeat=4):
            if thorough or (a, b, c, d).count(L(1)) + (a, b, c, d).count(L(2)) <= 2:
                nest.append(('bin', '=', ('bin', o, ('bin', o, a, b), ('bin', o, c, d)), Z))
        for a, b, c in itertools.product(k0, repeat=3):
            nest.append(('bin', '=', ('bin', o, ('bin', o, a, b), c), Z))
            nest.append(('bin', '=', ('bin', o, a, ('bin', o, b, c)), Z))
    fam['assoc-nests'] = nest if thorough else nest[::2]
    b0 = [P, Q, L(True), L(False), ('bin', '<', X, L(1)), ('bin', '=', X, Y)]
    b1 = b0 + bins(LOGIC + ('=', '!='), b0, b0) + [('not', a) for a in b0]
    fam['logic-depth2'] = bins(LOGIC + ('=', '!='), b1, b0) + bins(LOGIC, b0, [b for b in b1 if b not in b0]) + [('not', a) for a in b1]
    l0 = [P, Q, AP]
    lnest = []
    for o in LOGIC:
        for a, b, c, d in itertools.product(l0 + [('not', P)], repeat=4):
            lnest.append(('bin', o, ('bin', o, a, b), ('bin', o, c, d)))
    fam['logic-nests'] = lnest if thorough else lnest[::2]
    # functions
    a0 = [X, L(0), L(1), L(-1), L(2), L(10), L(1.5), L(-1.5), ('bin', '+', X, L(1)), ('bin', '+', L(1), L(2)), ('neg', X)]
    f1 = ('abs', 'bool', 'int', 'float', 'str', 'sqrt', 'ceil', 'floor', 'sin', 'cos', 'tan', 'asin', 'acos', 'atan', 'deg', 'rad')
    calls = []
    for f in f1:
        for a in a0:
            c = ('call', f, a)
            if f == 'bool':
                calls += [c, ('bin', 'and', c, P)]
            elif f == 'str':
                calls += [('bin', '=', c, ('f', 's')), ('bin', '=', c, ('str', '1'))]
            else:
                calls += [('bin', '<', c, Y), ('bin', '=', c, L(1))]
    for f in ('log', 'atan2', 'max', 'min', 'gcd'):
        for a in a0[:8]:
            for b in a0[:8]:
                calls.append(('bin', '<', ('call', f, a, b), Y))
    for f in ('max', 'min', 'gcd'):
        for a, b, c in itertools.product([X, Y, L(1), L(2), L(-1)], repeat=3):
            calls.append(('bin', '<', ('call', f, a, b, c), Z))
    fam['calls'] = calls
    # aggregates over compounds
    e0 = [X, L(0), L(1), L(2), L(-1)]
    comps = [XS, AXS]
    for n in (1, 2, 3):
        comps += [('set',) + c for c in itertools.product(e0 if n < 3 else [X, L(1), L(2)], repeat=n)]
    r0 = [L(0), L(1), L(2), L(3), X, L(-1)]
    for a in r0:
        for b in r0:
            for fl in ((False, False), (True, False), (False, True), (True, True)):
                comps.append(('range', a, b) + fl)
    agg = []
    for f in ('len', 'sum', 'prod', 'max', 'min', 'gcd'):
        for c in comps:
            agg.append(('bin', '<', ('call', f, c), Y))
    fam['aggregates'] = agg
    inc = []
    for a in [X, L(1), ('bin', '+', X, L(0)), ('bin', '*', L(2), L(1))]:
        for c in comps[:: (1 if thorough else 2)]:
            inc.append(('bin', 'in', a, c))
            inc.append(('bin', 'and', ('bin', 'in', a, c), P))
    fam['inclusion'] = inc
    quant = []
    for q in ('forall', 'exists'):
        for d in [XS, ('set', X, L(1)), ('range', L(0), L(2), False, False), ('range', X, Y, False, True)]:
            for body in [('bin', '<', ('var', 'v'), ('bin', '+', X, L(0))), ('bin', 'and', ('bin', '<', ('var', 'v'), L(1)), L(True)),
                         ('bin', 'or', ('bin', '=', ('var', 'v'), X), ('not', ('not', P)))]:
                quant.append(('q', q, 'v', d, body))
                quant.append(('bin', 'and', ('q', q, 'v', d, body), L(True)))
                quant.append(('not', ('not', ('q', q, 'v', d, body))))
    fam['quantifiers'] = quant
    strs = []
    s0 = [('f', 's'), ('f', 't'), ('str', 'a'), ('str', 'b'), ('str', '')]
    strs += bins(('=', '!='), s0, s0)
    strs += [('bin', 'and', a, P) for a in bins(('=', '!='), s0, s0)]
    strs += [('bin', 'in', a, ('set', b, c)) for a in s0 for b in s0 for c in s0]
    strs += [('bin', 'and', ('call', 'bool', a), P) for a in s0] + [('call', 'bool', a) for a in s0]
    strs += [('bin', '=', ('call', 'str', a), b) for a in s0 for b in s0]
    fam['strings'] = strs
    # sums / products with the same variable term and constants that are equal in VALUE but spelled differently
    spell = [('tok', '1'), ('tok', '1.0'), ('tok', '1e0'), ('tok', '2'), ('tok', '2.0'), ('tok', '10'), ('tok', '1e1'), ('tok', '0.5'), ('tok', '.5'), ('tok', '007'), ('tok', '7'),
             ('bin', '/', L(2), L(2)), ('bin', '+', L(0.5), L(0.5))]
    twins = []
    for t in (X, AX):
        sums = [('bin', o, t, c) for o in ('+', '-', '*') for c in spell]
        twins += bins(('=', '!=', '<'), sums[::2], sums[1::2]) if tier != 'thorough' else bins(('=', '!=', '<', '>='), sums, sums)
    twins += [('bin', '=', a, b) for a in spell for b in spell]
    fam['equal-values-different-spelling'] = twins
    # rare constants: conversions of boolean literals, integer powers beyond 2**53 (exact in Python, not in a double), huge powers
    BIG = 12157665459056928801  # 3 ** 40
    rare = []
    for f in ('int', 'float'):
        for b in (True, False):
            c = ('call', f, L(b))
            rare += [('bin', '=', c, Y), ('bin', '>', ('bin', '+', c, X), L(0)), ('bin', '<', ('bin', '*', X, c), Y), ('bin', 'in', X, ('range', ('call', f, L(False)), ('call', f, L(True)), False, False)),
                     ('bin', '=', ('call', 'abs', c), L(1))]
    rare += [('bin', '=', ('bin', '**', L(3), L(40)), L(BIG)), ('bin', '=', X, ('bin', '-', ('bin', '**', L(3), L(40)), L(BIG - 1))), ('bin', '<', X, ('bin', '**', L(7), L(400))),
             ('bin', '=', ('bin', '**', ('bin', '**', L(3), L(3)), ('bin', '**', L(3), L(3))), Y), ('bin', '!=', ('bin', '**', L(2), L(64)), ('bin', '+', ('bin', '**', L(2), L(64)), L(1))),
             ('bin', '<', ('bin', '*', L(2 ** 53 + 1), L(3)), Y), ('bin', '=', ('bin', '+', L(2 ** 53), L(1)), L(2 ** 53 + 1)), ('bin', '=', ('bin', '-', L(10 ** 30), L(1)), X)]
    fam['rare-constants'] = rare
    return {k: uniq(v) for k, v in fam.items()}


def random_specs(seed: int, n: int, dmax: int = 4) -> List[Any]:
    rg = gen.RandomGen(seed, dmax)
    out = []
    for _ in range(n):
        d = rg.r.choice((2, 3, 3, 4, dmax))
        out.append(rg.boolean(d) if rg.r.random() < 0.8 else rg.num(d))
    return out


def boolean_families(tier: str, alias_heavy: bool = False) -> Dict[str, List[Any]]:
    """propositional-plus-quantifier trees for split_and / refactor_reference / negate / join / replacements"""
    thorough = tier == 'thorough'
    fam: Dict[str, List[Any]] = {}
    V = ('var', 'v')
    xlt = ('bin', '<', X, L(1))
    alt = ('bin', '<', X, AX)
    b0 = [P, Q, AP, L(True), L(False), xlt] + ([alt, ('bin', '=', BX, AX)] if alias_heavy or thorough else [alt])
    if alias_heavy:
        b0.append(('bin', '<', ('idx', XS, ('fa', ('var', 'A'), 'i')), L(1)))  # the alias occurs ONLY inside an index expression
    b1 = b0 + bins(LOGIC, b0, b0) + [('not', a) for a in b0]
    fam['prop-depth2'] = bins(LOGIC, b1, b0) + bins(LOGIC, b0, [b for b in b1 if b not in b0]) + [('not', a) for a in b1]
    c0 = [P, AP, alt]
    c1 = c0 + bins(LOGIC, c0, c0) + [('not', a) for a in c0]
    c2 = bins(LOGIC, c1, c1)
    fam['prop-depth3'] = [('not', a) for a in c2] + [('not', ('not', a)) for a in c1] + (c2 if thorough else c2[::3]) \
        + [('bin', 'and', ('not', a), Q) for a in (c2 if thorough else c2[::4])]
    # quantifiers: bodies mixing variable-dependent and variable-free parts
    qa = [('bin', '<', V, L(1)), ('bin', '=', V, X), ('bin', '>', V, AX)]
    qa.append(('bin', '>', ('idx', YS, V), L(0)))  # the quantified variable occurs ONLY inside an index expression
    qf = [P, AP, alt]  # no variable
    qb0 = qa + qf
    qb1 = bins(LOGIC, qb0, qb0) + [('not', a) for a in qb0]
    qb2 = [('not', a) for a in qb1] + bins(('and',), qb1, qb0[:4]) + bins(('and', 'or', 'implies'), qb0[:4], qb1[:: (1 if thorough else 3)])
    bodies = [b for b in qa + qb1 + qb2 if gen._uses_var(b, 'v')]
    doms = [XS, AXS, ('set', X, L(1)), ('set', L(1)), ('range', L(0), L(2), False, False), ('range', L(1), L(1), True, False),
            ('range', X, Y, False, False), ('range', AX, L(3), False, True)]
    qs = []
    for q in ('forall', 'exists'):
        for d in doms:
            for b in bodies:
                qs.append(('q', q, 'v', d, b))
    fam['quantified'] = qs if thorough else qs[::2]
    sel = qs[:: (5 if thorough else 17)]
    wrap = []
    for s in sel:
        wrap += [('not', s), ('not', ('not', s)), ('bin', 'and', s, P), ('bin', 'and', AP, s), ('bin', 'implies', P, s),
                 ('not', ('bin', 'implies', s, AP)), ('not', ('bin', 'or', s, P)), ('bin', 'or', s, AP)]
    fam['quantified-wrapped'] = wrap
    # nested quantifiers
    W = ('var', 'w')
    nested = []
    inner_bodies = [('bin', '<', W, V), ('bin', 'and', ('bin', '<', W, V), P), ('bin', 'and', ('bin', '<', W, L(1)), ('bin', '>', V, AX)),
                    ('bin', 'and', AP, ('bin', '=', W, V)), ('not', ('bin', 'or', ('bin', '<', W, V), AP))]
    for q1 in ('forall', 'exists'):
        for q2 in ('forall', 'exists'):
            for d1 in (XS, ('set', X, L(1)), ('range', L(0), L(1), False, False)):
                for d2 in (('f', 'ys'), AXS, ('range', L(0), V, False, False)):
                    for ib in inner_bodies:
                        inner = ('q', q2, 'w', d2, ib)
                        nested += [('q', q1, 'v', d1, inner), ('not', ('q', q1, 'v', d1, inner)),
                                   ('q', q1, 'v', d1, ('bin', 'and', inner, ('bin', '<', V, L(2)))),
                                   ('q', q1, 'v', d1, ('bin', 'and', ('not', inner), Q))]
    fam['nested-quantifiers'] = nested if thorough else nested[::2]
    return {k: uniq(v) for k, v in fam.items()}


def slot_family() -> List[Any]:
    """one tree per (node kind x child slot) with a current-message reference AND an @A reference in that slot"""
    out = []
    V = ('var', 'v')
    M = ('f', 'm')  # message-typed field
    MS = ('f', 'ms')  # array of messages
    for ref, aref in ((X, AX), (('fa', M, 'x'), ('fa', ('fa', ('var', 'A'), 'm'), 'x')), (('idx', XS, L(0)), ('idx', AXS, L(0))),
                      (('fa', ('idx', MS, L(0)), 'x'), ('fa', ('idx', ('fa', ('var', 'A'), 'ms'), L(0)), 'x'))):
        for r in (ref, aref, ('bin', '+', ref, aref)):
            out += [
                ('bin', '<', r, L(1)), ('bin', '<', L(1), r), ('bin', '=', ('neg', r), Y),
                ('bin', 'in', r, ('set', L(1), L(2))), ('bin', 'in', Y, ('set', r, L(2))), ('bin', 'in', Y, ('set', L(2), r)),
                ('bin', 'in', Y, ('range', r, L(5), False, False)), ('bin', 'in', Y, ('range', L(0), r, True, True)),
                ('bin', '<', ('idx', YS, r), L(1)), ('bin', '<', ('idx', ('fa', ('var', 'A'), 'ys'), r), L(1)),
                ('bin', '<', ('call', 'abs', r), L(3)), ('bin', '<', ('call', 'max', r, Y), L(3)), ('bin', '<', ('call', 'max', Y, L(1), r), L(3)),
                ('bin', '<', ('call', 'sum', ('set', r, Y)), L(3)),
                ('q', 'forall', 'v', ('set', r, L(1)), ('bin', '<', V, L(3))), ('q', 'exists', 'v', ('range', L(0), r, False, False), ('bin', '<', V, L(3))),
                ('q', 'forall', 'v', YS, ('bin', '<', V, r)), ('q', 'exists', 'v', YS, ('bin', 'and', ('bin', '<', V, L(1)), ('bin', '>', r, L(0)))),
                ('not', ('bin', '<', r, L(1))), ('bin', 'implies', ('bin', '<', r, L(1)), P), ('bin', 'iff', P, ('bin', '<', r, L(1))),
            ]
    for dom, adom in ((XS, AXS),):
        out += [('q', 'forall', 'v', dom, ('bin', '<', V, L(1))), ('q', 'forall', 'v', adom, ('bin', '<', V, L(1))),
                ('bin', 'in', Y, dom), ('bin', 'in', Y, adom), ('bin', '<', ('call', 'len', dom), L(2)), ('bin', '<', ('call', 'len', adom), L(2)),
                ('bin', '<', ('call', 'sum', adom), L(2)), ('bin', '<', ('call', 'max', dom), L(2))]
    return uniq(out)


def call_shapes() -> List[Any]:
    """every built-in function with every admissible argument shape: literal, reference, expression, set, array,
    range with literal / non-literal bounds, message (roll/pitch/yaw), variadic"""
    out = []
    M = ('f', 'm')
    one_num = ('abs', 'sqrt', 'ceil', 'floor', 'sin', 'cos', 'tan', 'asin', 'acos', 'atan', 'deg', 'rad')
    prim = ('bool', 'int', 'float', 'str')
    nums = [L(0), L(1), L(-1), L(2), L(10), L(0.5), L(-2.5), X, AX, ('idx', XS, L(0)), ('bin', '+', X, L(1)), ('bin', '*', L(2), L(3)), ('neg', X),
            ('const', 'PI'), ('const', 'E'), ('const', 'INF'), ('const', 'NAN')]
    for f in one_num:
        for a in nums:
            out.append(('bin', '<', ('call', f, a), Y))
    for f in prim:
        for a in nums + [P, L(True), L(False), ('f', 's'), ('str', 'a'), ('str', ''), ('str', '12')]:
            c = ('call', f, a)
            out.append(c if f == 'bool' else ('bin', '=', c, ('f', 's')) if f == 'str' else ('bin', '<', c, Y))
    # primitive-typed parameters also take relational / logical expressions (the argument then needs its own parentheses)
    bargs = [('bin', '=', X, Y), ('bin', '<', X, L(1)), ('not', P), ('bin', 'and', P, ('bin', 'or', Q, R)), ('bin', 'implies', P, Q), ('bin', 'in', X, XS),
             ('q', 'forall', 'v', XS, ('bin', '>', ('var', 'v'), L(0)))]
    for f in prim:
        for a in bargs:
            c = ('call', f, a)
            out.append(c if f == 'bool' else ('bin', '=', c, ('f', 's')) if f == 'str' else ('bin', '<', c, Y))
    for f in ('log', 'atan2'):
        for a in nums[:9]:
            for b in nums[:9]:
                out.append(('bin', '<', ('call', f, a, b), Y))
    comps = [XS, AXS, ('f', 'ys'), ('set', L(1)), ('set', L(1), L(2)), ('set', X, L(1), L(2)), ('set', X, Y), ('set', L(4), L(6)), ('set', L(1.5), L(2)),
             ('set', ('bin', '+', L(1), L(1)), L(2))]
    for a, b in ((L(1), L(3)), (L(3), L(1)), (L(2), L(2)), (L(1), X), (X, L(3)), (X, Y), (L(0.5), L(2.5)), (('bin', '+', L(1), L(1)), L(4)), (L(-2), L(2))):
        for fl in ((False, False), (True, False), (False, True), (True, True)):
            comps.append(('range', a, b) + fl)
    for f in ('len', 'sum', 'prod', 'max', 'min', 'gcd'):
        for c in comps:
            out.append(('bin', '<', ('call', f, c), Y))
    for f in ('max', 'min', 'gcd'):
        for args in ((X, Y), (L(4), L(6)), (X, L(4), L(6)), (L(4), L(6), L(3)), (L(4), X, L(6), Y), (L(1.5), L(2)), (L(4), L(6), L(8), L(3))):
            out.append(('bin', '<', ('call', f) + args, Y))
    for f in ('roll', 'pitch', 'yaw'):
        out.append(('bin', '<', ('call', f, M), Y))
        out.append(('bin', '<', ('call', f, ('fa', ('var', 'A'), 'm')), Y))
        out.append(('bin', '<', ('call', f, X, Y, L(0), L(1)), Y))
        out.append(('bin', '<', ('call', f, L(0), L(0), L(0), L(1)), Y))
    return uniq(out)


def reuse_family() -> List[Tuple[Any, bool]]:
    """(predicate spec, must_be_rejected): one reference used three times — at a generic, a numeric, a boolean or a string position —
    in every order; rejected iff two of the uses require disjoint types"""
    out = []
    refs = [X, AX, ('idx', XS, L(0)), ('fa', ('f', 'm'), 'k')]
    for r in refs:
        uses = {'gen': ('bin', '=', r, ('fa', ('var', 'B'), 'w')), 'num': ('bin', '<', r, L(1)), 'bool': ('not', r), 'str': ('bin', '=', r, ('str', 'a')),
                'gen2': ('bin', 'in', r, ('fa', ('var', 'B'), 'ws'))}
        import itertools as it
        for combo in it.permutations(uses, 3):
            kinds = {k for k in combo if k in ('num', 'bool', 'str')}
            clash = len(kinds) >= 2
            a, b, c = (uses[k] for k in combo)
            out.append((('bin', 'and', ('bin', 'and', a, b), c), clash))
            out.append((('bin', 'or', a, ('bin', 'implies', b, c)), clash))
    return out


def reuse_family_quantified() -> List[Tuple[Any, bool]]:
    """(predicate spec, must_be_rejected): a QUANTIFIED variable used three times in the body — generic / numeric / boolean / string
    positions in every order — over domains whose elements are numbers, strings, booleans (literal sets, ranges) or unknown (a field);
    rejected iff two of {explicit uses, element type of a literal domain} are disjoint"""
    import itertools as it
    out = []
    V = ('var', 'v')
    uses = {'gen': ('bin', '=', V, ('fa', ('var', 'B'), 'w')), 'num': ('bin', '<', V, L(1)), 'bool': ('not', V), 'str': ('bin', '=', V, ('str', 'a')),
            'gen2': ('bin', 'in', V, ('fa', ('var', 'B'), 'ws')), 'gen3': ('bin', '=', ('call', 'str', V), ('str', '1'))}
    doms = [(('set', L(1), L(2)), 'num'), (('set', L(-1), L(1)), 'num'), (('set', ('bin', '+', X, L(1)), L(0)), 'num'), (('set', ('const', 'PI'), ('neg', ('const', 'E'))), 'num'),
            (('range', L(0), L(9.5), False, False), 'num'), (('range', L(-1), L(2), True, False), 'num'), (('set', ('str', 'a'), ('str', 'b')), 'str'), (('set', L(True), L(False)), 'bool'),
            (('f', 'ws'), None), (('fa', ('var', 'B'), 'vs'), None)]
    for dom, dk in doms:
        for combo in it.permutations(uses, 3):
            kinds = {k for k in combo if k in ('num', 'bool', 'str')} | ({dk} if dk else set())
            clash = len(kinds) >= 2
            a, b, c = (uses[k] for k in combo)
            out.append((('q', 'forall', 'v', dom, ('bin', 'and', ('bin', 'and', a, b), c)), clash))
            out.append((('bin', 'or', ('f', 'p'), ('q', 'exists', 'v', dom, ('bin', 'implies', a, ('bin', 'or', b, c)))), clash))
    return out


def numeric_roots() -> List[Any]:
    """non-boolean expressions (arithmetic, unary minus, calls, accesses) with and without alias references"""
    atoms = [X, AX, ('idx', XS, ('fa', ('var', 'A'), 'i')), L(1), ('idx', AXS, L(0))]
    out = list(atoms)
    for a in atoms:
        out += [('neg', a), ('neg', ('neg', a)), ('call', 'abs', a), ('neg', ('call', 'abs', a)), ('call', 'abs', ('neg', a))]
        for b in atoms[:3]:
            out += [('bin', o, a, b) for o in ARITH] + [('neg', ('bin', '+', a, b))]
    out += [('set', X, AX), ('range', AX, L(3), False, True), ('call', 'max', X, AX), ('call', 'len', AXS), ('fa', ('var', 'A'), 'm'), ('str', 'a')]
    return uniq(out)
