"""EQ engine: decide `input == output on every valuation where the input is defined` with z3, for real ASTs
produced by the real rewriting code; replay sat models through the independent Python evaluator."""
from __future__ import annotations

import time
from typing import Any, Dict, List, Optional, Sequence, Tuple

import z3

from vf import sem
from vf.sem import Undef, Val, Z3Tr


class EqResult:
    __slots__ = ('verdict', 'reach', 'secs', 'valuation', 'vin', 'vout', 'note', 'uses_uf')

    def __init__(self):
        self.verdict = 'unknown'  # 'unsat' | 'sat' | 'unknown' | 'norepro'
        self.reach = None  # True: some valuation defines the input (non-vacuous)
        self.secs = 0.0
        self.valuation = None
        self.vin = None
        self.vout = None
        self.note = ''
        self.uses_uf = False


def _pyval(e, heap):
    try:
        return ('val', sem.pyeval(e, heap, {}))
    except Undef as u:
        return ('undef', str(u))


def _conj_val(es, heap):
    acc = True
    for e in es:
        k, v = _pyval(e, heap)
        if k == 'undef':
            return (k, v)
        if not isinstance(v, bool):
            return ('undef', 'non-boolean conjunct')
        acc = acc and v
    return ('val', acc)


def _encode(e_in, e_outs, K, aliases_in, aliases_out, this_out, conj, reading):
    tr_in = Z3Tr(K=K, aliases=aliases_in, reading=reading)
    vi, di = tr_in.tr(e_in)
    typing = tr_in.typing(e_in)
    tr_out = Z3Tr(K=K, aliases=aliases_out if aliases_out is not None else aliases_in, this=this_out, reading=reading)
    outs = [tr_out.tr(e) for e in e_outs]
    if conj:
        dout = z3.And(*[z3.And(d, Val.is_B(v)) for v, d in outs]) if outs else z3.BoolVal(True)
        vout = Val.B(z3.And(*[Val.b(v) for v, _ in outs]) if outs else z3.BoolVal(True))
    else:
        vout, dout = outs[0]
    return tr_in, tr_out, vi, di, vout, dout, typing


def equivalent(e_in, e_outs: Sequence[Any], *, K: int = 2, timeout_ms: int = 5000, aliases_in=None, aliases_out=None,
               this_out=None, conj: bool = False, extra_assumptions=None) -> EqResult:
    """Is val(e_in) == val(e_out) wherever e_in is defined?  With conj=True, e_outs is a list of boolean
    expressions whose conjunction is compared with e_in.  aliases_*: name -> Val term overrides (for substitution
    properties); both sides otherwise share every uninterpreted symbol (same valuation).
    Where enumerated sets with possibly coinciding elements feed len/sum/prod, a difference is only reported if it
    exists under BOTH admissible readings (as listed / deduplicated) on the same valuation."""
    res = EqResult()
    t0 = time.time()
    encs = [_encode(e_in, e_outs, K, aliases_in, aliases_out, this_out, conj, 'list')]
    if encs[0][0].dual or encs[0][1].dual:
        encs.append(_encode(e_in, e_outs, K, aliases_in, aliases_out, this_out, conj, 'set'))
    res.uses_uf = any(e[0].uses_uf or e[1].uses_uf for e in encs)
    s = z3.Solver()
    s.set('timeout', timeout_ms)
    for tr_in, tr_out, vi, di, vout, dout, typing in encs:
        for a in tr_in.assumptions + tr_out.assumptions + typing:
            s.add(a)
        s.add(di)
    for a in list(extra_assumptions or []):
        s.add(a)
    r = s.check()
    if r == z3.unsat:
        res.reach = False
        res.verdict = 'unsat'
        res.secs = time.time() - t0
        return res
    res.reach = True if r == z3.sat else None
    for tr_in, tr_out, vi, di, vout, dout, typing in encs:
        s.add(z3.Not(z3.And(dout, vi == vout)))
    r = s.check()
    res.secs = time.time() - t0
    if r == z3.unsat:
        res.verdict = 'unsat'
        return res
    if r != z3.sat:
        res.verdict = 'unknown'
        res.note = s.reason_unknown()
        return res
    # replay the model through the independent evaluator (under every reading encoded); when the model depends on an
    # arbitrary interpretation of an uninterpreted function (sqrt, log, trigonometry, gcd, **), pin that function at the
    # model's argument values to Python's own result and solve again (counterexample-guided refinement, bounded)
    for _round in range(8):
        m = s.model()
        verdict = _replay(res, m, encs, e_in, e_outs, conj)
        if verdict != 'norepro' or not res.uses_uf:
            break
        pins = _pin_ufs(m, encs)
        if not pins:
            break
        for c in pins:
            s.add(c)
        r = s.check()
        res.secs = time.time() - t0
        if r == z3.unsat:
            res.verdict = 'unsat'
            res.note = f'after pinning uninterpreted functions at {len(pins)} points'
            res.vin = res.vout = res.valuation = None
            return res
        if r != z3.sat:
            res.verdict = 'unknown'
            res.note = s.reason_unknown()
            return res
        res.vin = res.vout = res.valuation = None
    return res


def _pyfun(name, args):
    import math
    from fractions import Fraction
    fl = [float(a) for a in args]
    try:
        if name == 'pow':
            b, e = args
            if e.denominator == 1 and abs(int(e)) <= 64 and not (b == 0 and e < 0):
                return Fraction(b) ** int(e)
            return None
        if name == 'gcd':
            if all(a.denominator == 1 for a in args):
                return Fraction(math.gcd(*[int(a) for a in args]))
            return None
        if name == 'sqrt':
            v = math.sqrt(fl[0])
        elif name == 'log':
            v = math.log10(fl[0]) if fl[1] == 10 else math.log(fl[0], fl[1])
        elif name == 'atan2':
            v = math.atan2(fl[0], fl[1])
        else:
            table = {'sin': math.sin, 'cos': math.cos, 'tan': math.tan, 'asin': math.asin, 'acos': math.acos, 'atan': math.atan, 'deg': math.degrees, 'rad': math.radians}
            if name not in table:
                return None
            v = table[name](fl[0])
        if v != v or v in (float('inf'), float('-inf')):
            return None
        return Fraction(v)
    except (ValueError, ZeroDivisionError, OverflowError):
        return None


def _pin_ufs(m, encs):
    from fractions import Fraction
    pins = []
    for tr_in, tr_out, *_ in encs:
        for tr in (tr_in, tr_out):
            for name, args, app in tr.uf_apps:
                vals = []
                ok = True
                for a in args:
                    v = m.eval(a, model_completion=True)
                    if not z3.is_rational_value(v):
                        ok = False
                        break
                    vals.append(Fraction(v.numerator_as_long(), v.denominator_as_long()))
                if not ok:
                    continue
                pv = _pyfun(name, vals)
                if pv is None:
                    continue
                cond = z3.And(*[a == sem.real_const(v) for a, v in zip(args, vals)])
                pins.append(z3.Implies(cond, app == sem.real_const(pv)))
    return pins


class _FloatHeap(sem.Heap):
    """the same valuation with every number read as a Python float (native arithmetic, as constant folding uses)"""

    def __init__(self, inner):
        self.inner = inner
        self.reading = getattr(inner, 'reading', 'list')

    @staticmethod
    def _f(v):
        from fractions import Fraction
        return float(v) if isinstance(v, Fraction) else v

    def this(self):
        return self.inner.this()

    def alias(self, name):
        return self._f(self.inner.alias(name))

    def field(self, msg, name):
        return self._f(self.inner.field(msg, name))

    def alen(self, arr):
        return self.inner.alen(arr)

    def aelem(self, arr, i):
        return self._f(self.inner.aelem(arr, i))

    def rlist(self, lo, hi, exmin, exmax):
        return [self._f(x) for x in self.inner.rlist(lo, hi, exmin, exmax)]


def _float_run_agrees(m, encs, e_in, e_outs, conj) -> bool:
    import math
    try:
        for tr_in, tr_out, *_ in encs:
            a = _pyval(e_in, _FloatHeap(sem.ModelHeap(m, tr_in)))
            hb = _FloatHeap(sem.ModelHeap(m, tr_out))
            b = _conj_val(e_outs, hb) if conj else _pyval(e_outs[0], hb)
            if a[0] != 'val' or b[0] != 'val':
                return False
            x, y = a[1], b[1]
            if isinstance(x, bool) or isinstance(y, bool) or isinstance(x, str) or isinstance(y, str):
                if x != y:
                    return False
            elif not math.isclose(float(x), float(y), rel_tol=1e-12, abs_tol=1e-12):
                return False
        return True
    except Exception:
        return False


def _replay(res, m, encs, e_in, e_outs, conj) -> str:
    try:
        differs = True
        for tr_in, tr_out, vi, di, vout, dout, typing in encs:
            heap_in = sem.ModelHeap(m, tr_in)
            heap_out = sem.ModelHeap(m, tr_out)
            a = _pyval(e_in, heap_in)
            b = _conj_val(e_outs, heap_out) if conj else _pyval(e_outs[0], heap_out)
            if res.vin is None:
                res.vin, res.vout = a, b
                res.valuation = sem.describe_model(m, tr_in, [e_in] + list(e_outs))
            differs = differs and a[0] == 'val' and (b[0] == 'undef' or not sem.value_equal(a[1], b[1]))
    except Exception as ex:  # model could not be read back
        res.verdict = 'norepro'
        res.note = f'model read-back failed: {type(ex).__name__}: {ex}'
        return res.verdict
    if differs and _float_run_agrees(m, encs, e_in, e_outs, conj):
        # the two sides only differ by IEEE rounding of a folded constant (exact rationals vs Python floats): outside the claim
        res.verdict = 'rounding'
        res.note = 'differs in exact arithmetic only; equal when evaluated with Python floats'
        return res.verdict
    if differs:
        res.verdict = 'sat'
    else:
        res.verdict = 'norepro'
        res.note = f'z3 model does not replay in the Python evaluator: in={res.vin} out={res.vout}'
    return res.verdict


def identically_zero(e, K: int = 2, timeout_ms: int = 3000) -> Optional[bool]:
    """z3: is expression e (a divisor) zero on every valuation where it is defined?"""
    tr = Z3Tr(K=K)
    v, d = tr.tr(e)
    s = z3.Solver()
    s.set('timeout', timeout_ms)
    for a in tr.assumptions:
        s.add(a)
    s.add(d, Val.is_N(v), Val.n(v) != 0)
    r = s.check()
    if r == z3.unsat:
        return True
    if r == z3.sat:
        return False
    return None


def has_undefined_constant(e) -> bool:
    """some closed (reference-free) subexpression is itself undefined, e.g. 1/0, sqrt(-1), NAN arithmetic"""
    for n in sem.walk_nodes(e):
        k = sem.kind(n)
        if k in ('HplSet', 'HplRange'):
            continue
        if sem.is_closed(n):
            try:
                v = sem.pyeval(n, sem.Heap(), {})
                if isinstance(v, float) and (v != v or v in (float('inf'), float('-inf'))):
                    return True
            except sem.Unclaimed:
                continue  # meaning not fixed by the documentation: not an evaluation error, hence no licence to raise
            except Undef:
                return True
    return False


def never_defined_somewhere(e, K: int = 2, timeout_ms: int = 3000) -> Optional[bool]:
    """some non-closed subexpression (a call, division or power) is undefined on EVERY schema-consistent valuation, as proved by z3 —
    e.g. sqrt(-(11.5 ** len({x}))), whose value does not depend on the valuation. This is the valuation-independent reading of the
    statement's 'undefined constant subexpression', parallel to the identically-zero divisor. None: undecided."""
    undecided = False
    for n in sem.walk_nodes(e):
        k = sem.kind(n)
        if not (k == 'HplFunctionCall' or (k == 'HplBinaryOperator' and n.operator.token in ('/', '**'))):
            continue
        if sem.is_closed(n):
            continue
        try:
            tr = Z3Tr(K=K)
            v, d = tr.tr(n)
        except Exception:
            continue
        s = z3.Solver()
        s.set('timeout', timeout_ms)
        for a in tr.assumptions:
            s.add(a)
        s.add(d)
        r = s.check()
        if r == z3.unsat:
            return True
        if r != z3.sat:
            undecided = True
    return None if undecided else False


def zero_divisor_somewhere(e) -> Optional[bool]:
    """some division in e has a divisor that z3 proves identically zero (None: undecided)"""
    undecided = False
    for n in sem.walk_nodes(e):
        if sem.kind(n) == 'HplBinaryOperator' and n.operator.token == '/':
            r = identically_zero(n.operand2)
            if r:
                return True
            if r is None:
                undecided = True
    return None if undecided else False
