"""Tree specs for HPL expressions: neutral tuples, built into real ASTs through the REAL parser callbacks
(hpl.parser.PropertyTransformer methods — the AST-building half of the parser, exactly as Lark drives it),
and rendered to text for the cross-check against the real parser.

spec ::= ('lit', int|float|bool) | ('str', 'abc') | ('const', 'PI')
       | ('f', 'x')              own field            | ('var', 'x')        @x
       | ('fa', spec, 'name')    field access         | ('idx', spec, spec) array access
       | ('neg', spec) | ('not', spec) | ('bin', op, spec, spec)
       | ('q', 'forall'|'exists', 'v', dom, body)
       | ('call', name, spec...) | ('set', spec...) | ('range', lo, hi, exmin, exmax)
"""
from __future__ import annotations

import itertools
import random
from typing import Any, Dict, Iterable, Iterator, List, Sequence, Tuple

_T = None


def transformer():
    global _T
    if _T is None:
        from hpl.parser import PropertyTransformer
        _T = PropertyTransformer()
    return _T


LEVEL = {
    'implies': 'condition', 'iff': 'condition', 'or': 'disjunction', 'and': 'conjunction',
    '=': 'atomic_condition', '!=': 'atomic_condition', '<': 'atomic_condition', '<=': 'atomic_condition',
    '>': 'atomic_condition', '>=': 'atomic_condition', 'in': 'atomic_condition',
    '+': 'expr', '-': 'expr', '*': 'term', '/': 'term', '**': 'factor',
}


def num_token(v) -> str:
    return repr(v) if isinstance(v, float) else str(v)


def build(spec):
    """spec -> real AST via the real parser callbacks"""
    from hpl.ast import HplFunctionCall
    T = transformer()
    k = spec[0]
    if k == 'lit':
        v = spec[1]
        if v is True or v is False:
            return T.boolean(str(v))
        if v < 0 or (isinstance(v, float) and str(v).startswith('-')):
            return T.negative_number('-', T.number(num_token(-v)))
        return T.number(num_token(v))
    if k == 'str':
        return T.string('"' + spec[1] + '"')
    if k == 'apistr':  # a string literal as the library's own API (and simplify) builds it: token without quotes
        from hpl.ast import HplLiteral
        return HplLiteral.string(spec[1])
    if k == 'tok':  # a number literal with an explicit spelling ('1.0', '1e1', '.5', '007')
        return T.number(spec[1])
    if k == 'const':
        return T.number_constant(spec[1])
    if k == 'f':
        return T.own_field(spec[1])
    if k == 'var':
        name = spec[1]
        if type(name).__name__ == 'SymName':  # symbolic name (vf.sp): keep the '@name' token symbolic too
            from vf.sp import SymTok
            return T.variable(SymTok(name))
        return T.variable('@' + name)
    if k == 'fa':
        return T.field_access(build(spec[1]), spec[2])
    if k == 'idx':
        return T.array_access(build(spec[1]), build(spec[2]))
    if k == 'neg':
        return T.negative_number('-', build(spec[1]))
    if k == 'not':
        return T.negation('not', build(spec[1]))
    if k == 'bin':
        op = spec[1]
        return getattr(T, LEVEL[op])([build(spec[2]), op, build(spec[3])])
    if k == 'q':
        return T.quantification(spec[1], spec[2], build(spec[3]), build(spec[4]))
    if k == 'call':
        args = [build(a) for a in spec[2:]]
        if len(args) == 1:
            return T.function_call(spec[1], args[0])
        return HplFunctionCall(spec[1], tuple(args))
    if k == 'set':
        return T.enum_literal([build(a) for a in spec[1:]])
    if k == 'range':
        return T.range_literal('![' if spec[3] else '[', build(spec[1]), build(spec[2]), ']!' if spec[4] else ']')
    raise ValueError(f'bad spec {spec!r}')


def build_direct(spec):
    """spec -> AST through the PUBLIC constructors only (no parser callback): the tree the documented grammar assigns.
    Children are cast (copied) to the parameter types first, which is what 'operands narrowed to the parameter types' means."""
    import math
    from hpl.ast import (HplArrayAccess, HplBinaryOperator, HplFieldAccess, HplFunctionCall, HplLiteral, HplQuantifier, HplRange, HplSet,
                         HplThisMessage, HplUnaryOperator, HplVarReference)
    from hpl.ast.expressions import BuiltinBinaryOperator, BuiltinUnaryOperator
    from hpl.types import DataType
    k = spec[0]
    if k == 'lit':
        v = spec[1]
        if v is True or v is False:
            return HplLiteral(str(v), v)
        if v < 0 or str(v).startswith('-'):
            return HplUnaryOperator(BuiltinUnaryOperator.MINUS, HplLiteral(num_token(-v), -v))
        return HplLiteral(num_token(v), v)
    if k == 'str':
        t = '"' + spec[1] + '"'
        return HplLiteral(t, t)
    if k == 'apistr':
        return HplLiteral.string(spec[1])
    if k == 'tok':
        t = spec[1]
        try:
            return HplLiteral(t, int(t))
        except ValueError:
            return HplLiteral(t, float(t))
    if k == 'const':
        return HplLiteral(spec[1], {'PI': math.pi, 'E': math.e, 'INF': float('inf'), 'NAN': transformer().number_constant('NAN').value}[spec[1]])
    if k == 'f':
        return HplFieldAccess(HplThisMessage(), spec[1])
    if k == 'var':
        return HplVarReference('@' + spec[1])
    if k == 'fa':
        return HplFieldAccess(build_direct(spec[1]).cast(DataType.MESSAGE), spec[2])
    if k == 'idx':
        return HplArrayAccess(build_direct(spec[1]).cast(DataType.ARRAY), build_direct(spec[2]).cast(DataType.NUMBER))
    if k == 'neg':
        return HplUnaryOperator(BuiltinUnaryOperator.MINUS, build_direct(spec[1]).cast(DataType.NUMBER))
    if k == 'not':
        return HplUnaryOperator(BuiltinUnaryOperator.NOT, build_direct(spec[1]).cast(DataType.BOOL))
    if k == 'bin':
        op = None
        for m in BuiltinBinaryOperator:
            if m.value.token == spec[1]:
                op = m.value
        a = build_direct(spec[2]).cast(op.parameter1)
        b = build_direct(spec[3]).cast(op.parameter2)
        return HplBinaryOperator(op, a, b)
    if k == 'q':
        return HplQuantifier(spec[1], spec[2], build_direct(spec[3]), build_direct(spec[4]))
    if k == 'call':
        return HplFunctionCall(spec[1], tuple(build_direct(a) for a in spec[2:]))
    if k == 'set':
        return HplSet(tuple(build_direct(a) for a in spec[1:]))
    if k == 'range':
        return HplRange(build_direct(spec[1]), build_direct(spec[2]), exclude_min=bool(spec[3]), exclude_max=bool(spec[4]))
    raise ValueError(f'bad spec {spec!r}')


def render(spec) -> str:
    """fully parenthesised HPL text of a spec (multi-argument calls have no concrete syntax: rendered with commas)"""
    k = spec[0]
    if k == 'lit':
        v = spec[1]
        if v is True or v is False:
            return str(v)
        return num_token(v) if v >= 0 and not str(v).startswith('-') else f'-{num_token(-v)}'
    if k in ('str', 'apistr'):
        return '"' + spec[1] + '"'
    if k in ('const', 'tok'):
        return spec[1]
    if k == 'f':
        return spec[1]
    if k == 'var':
        return '@' + spec[1]
    if k == 'fa':
        return f'{render(spec[1])}.{spec[2]}'
    if k == 'idx':
        return f'{render(spec[1])}[{render(spec[2])}]'
    if k == 'neg':
        return f'-{render(spec[1])}'
    if k == 'not':
        return f'(not {render(spec[1])})'
    if k == 'bin':
        return f'({render(spec[2])} {spec[1]} {render(spec[3])})'
    if k == 'q':
        return f'({spec[1]} {spec[2]} in {render(spec[3])}: {render(spec[4])})'
    if k == 'call':
        return f'{spec[1]}({", ".join(render(a) for a in spec[2:])})'
    if k == 'set':
        return '{' + ', '.join(render(a) for a in spec[1:]) + '}'
    if k == 'range':
        return f'{"![" if spec[3] else "["}{render(spec[1])} to {render(spec[2])}{"]!" if spec[4] else "]"}'
    raise ValueError(f'bad spec {spec!r}')


def parseable(spec) -> bool:
    """has concrete syntax (no multi-argument calls)"""
    if spec[0] == 'call' and len(spec) > 3:
        return False
    return all(parseable(s) for s in spec[1:] if isinstance(s, tuple))


def size(spec) -> int:
    return 1 + sum(size(s) for s in spec[1:] if isinstance(s, tuple))


# ---------------------------------------------------------------------------
# typed enumeration
# ---------------------------------------------------------------------------

class Grammar:
    """A small typed grammar. A level is a list of *productions* (maker, [operand lists]); the specs of the
    level are maker(*combo) for every combo of the operand lists. Levels can be counted, enumerated, indexed
    (nth) and therefore strided or sampled without being materialised."""

    def __init__(self, *, num_atoms=(), bool_atoms=(), str_atoms=(), arr_atoms=(), barr_atoms=(),
                 arith=('+', '-', '*', '/', '**'), cmp=('=', '!=', '<', '<=', '>', '>='), logic=('and', 'or', 'implies', 'iff'),
                 unary=('neg', 'not'), num_calls=(), calls2=(), sets=False, ranges=False, quant=(), beq=False, seq=False,
                 inc=(), agg=(), set_sizes=(2,), qvar='v', range_flags=((False, False), (True, False), (False, True), (True, True))):
        self.num_atoms = tuple(num_atoms)
        self.bool_atoms = tuple(bool_atoms)
        self.str_atoms = tuple(str_atoms)
        self.arr_atoms = tuple(arr_atoms)
        self.barr_atoms = tuple(barr_atoms)
        self.arith, self.cmp, self.logic, self.unary = tuple(arith), tuple(cmp), tuple(logic), tuple(unary)
        self.num_calls, self.calls2 = tuple(num_calls), tuple(calls2)
        self.sets, self.ranges, self.quant = sets, ranges, tuple(quant)
        self.beq, self.seq = beq, seq
        self.inc = tuple(inc)  # kinds of `in` right-hand sides: 'set','range','arr'
        self.agg = tuple(agg)  # aggregate calls over compounds: len,sum,prod,max,min
        self.set_sizes = tuple(set_sizes)
        self.qvar = qvar
        self.range_flags = tuple(range_flags)
        self._memo: Dict[Tuple[str, int, bool], List[Any]] = {}

    # -- productions -------------------------------------------------------
    def productions(self, t: str, d: int, qv: bool = False):
        P = []

        def atoms(xs):
            if xs:
                P.append((lambda a: a, [list(xs)]))

        if t == 'num':
            atoms(self.num_atoms + ((('var', self.qvar),) if qv else ()))
            if d > 0:
                sub = self.enum('num', d - 1, qv)
                for op in self.arith:
                    P.append(((lambda op: lambda a, b: ('bin', op, a, b))(op), [sub, sub]))
                if 'neg' in self.unary:
                    P.append((lambda a: ('neg', a), [sub]))
                for f in self.num_calls:
                    P.append(((lambda f: lambda a: ('call', f, a))(f), [sub]))
                for f in self.calls2:
                    P.append(((lambda f: lambda a, b: ('call', f, a, b))(f), [sub, sub]))
                if self.agg:
                    comps = self.compounds(d - 1, qv)
                    for f in self.agg:
                        P.append(((lambda f: lambda c: ('call', f, c))(f), [comps]))
        elif t == 'bool':
            atoms(self.bool_atoms)
            if d > 0:
                nums = self.enum('num', d - 1, qv)
                bools = self.enum('bool', d - 1, qv)
                for op in self.cmp:
                    P.append(((lambda op: lambda a, b: ('bin', op, a, b))(op), [nums, nums]))
                if self.beq:
                    for op in ('=', '!='):
                        P.append(((lambda op: lambda a, b: ('bin', op, a, b))(op), [bools, bools]))
                if self.seq:
                    strs = self.enum('str', d - 1, qv)
                    for op in ('=', '!='):
                        P.append(((lambda op: lambda a, b: ('bin', op, a, b))(op), [strs, strs]))
                for op in self.logic:
                    P.append(((lambda op: lambda a, b: ('bin', op, a, b))(op), [bools, bools]))
                if 'not' in self.unary:
                    P.append((lambda a: ('not', a), [bools]))
                if self.inc:
                    P.append((lambda a, c: ('bin', 'in', a, c), [nums, self.compounds(d - 1, qv, kinds=self.inc)]))
                if self.quant and not qv:
                    doms = self.compounds(d - 1, False)
                    bodies = [b for b in self.enum('bool', d - 1, True) if _uses_var(b, self.qvar)]
                    for q in self.quant:
                        P.append(((lambda q: lambda dm, b: ('q', q, self.qvar, dm, b))(q), [doms, bodies]))
        elif t == 'str':
            atoms(self.str_atoms)
        else:
            raise ValueError(t)
        return P

    def count(self, t: str, d: int, qv: bool = False) -> int:
        n = 0
        for _, lists in self.productions(t, d, qv):
            k = 1
            for l in lists:
                k *= len(l)
            n += k
        return n

    def nth(self, t: str, d: int, i: int, qv: bool = False, _P=None):
        P = _P if _P is not None else self.productions(t, d, qv)
        for maker, lists in P:
            k = 1
            for l in lists:
                k *= len(l)
            if i < k:
                combo = []
                for l in reversed(lists):
                    combo.append(l[i % len(l)])
                    i //= len(l)
                return maker(*reversed(combo))
            i -= k
        raise IndexError(i)

    def select(self, t: str, d: int, limit: int, rng=None, qv: bool = False) -> Tuple[List[Any], int, bool]:
        """(specs, size of the level, exhaustive?) — the whole level if it has <= limit specs, else `limit`
        specs chosen by a seeded permutation of the index space"""
        P = self.productions(t, d, qv)
        n = self.count(t, d, qv)
        if n <= limit:
            return [self.nth(t, d, i, qv, P) for i in range(n)], n, True
        rng = rng or random.Random(0)
        idx = rng.sample(range(n), limit)
        return [self.nth(t, d, i, qv, P) for i in idx], n, False

    def enum(self, t: str, d: int, qv: bool = False) -> List[Any]:
        """all specs of type t and depth <= d (materialised; use for sub-levels)"""
        key = (t, d, qv)
        if key not in self._memo:
            P = self.productions(t, d, qv)
            out = []
            for maker, lists in P:
                for combo in itertools.product(*lists):
                    out.append(maker(*combo))
            self._memo[key] = out
        return self._memo[key]

    def compounds(self, d: int, qv: bool, kinds=('set', 'range', 'arr')) -> List[Any]:
        out: List[Any] = []
        if 'arr' in kinds:
            out.extend(self.arr_atoms)
        nums = self.enum('num', max(d, 0), qv) if (self.sets or self.ranges) else []
        if self.sets and 'set' in kinds:
            for n in self.set_sizes:
                for combo in itertools.product(nums, repeat=n):
                    out.append(('set',) + combo)
        if self.ranges and 'range' in kinds:
            for a in nums:
                for b in nums:
                    for em, eM in self.range_flags:
                        out.append(('range', a, b, em, eM))
        return out


def _uses_var(spec, v) -> bool:
    if spec[0] == 'var' and spec[1] == v:
        return True
    return any(_uses_var(s, v) for s in spec[1:] if isinstance(s, tuple))


def uses_any_ref(spec) -> bool:
    if spec[0] in ('f', 'var'):
        return True
    return any(uses_any_ref(s) for s in spec[1:] if isinstance(s, tuple))


class RandomGen:
    """Seeded random well-typed specs from a wide grammar (depth <= dmax). Only selects ADDITIONAL trees."""

    NUM_LITS = (0, 1, -1, 2, 3, 10, 0.5, 1.5)

    def __init__(self, seed: int, dmax: int = 4):
        self.r = random.Random(seed)
        self.dmax = dmax

    def num(self, d, qv=()):
        r = self.r
        if d <= 0 or r.random() < 0.25:
            c = r.random()
            if c < 0.35:
                return ('lit', r.choice(self.NUM_LITS))
            if c < 0.7:
                return ('f', r.choice('xyz'))
            if c < 0.8:
                return ('fa', ('var', 'A'), r.choice('xy'))
            if c < 0.9 and qv:
                return ('var', r.choice(qv))
            return ('idx', ('f', 'xs'), ('lit', r.choice((0, 1))))
        c = r.random()
        if c < 0.6:
            return ('bin', r.choice(('+', '-', '*', '/', '**', '+', '-', '*')), self.num(d - 1, qv), self.num(d - 1, qv))
        if c < 0.7:
            return ('neg', self.num(d - 1, qv))
        if c < 0.8:
            return ('call', r.choice(('abs', 'ceil', 'floor', 'int', 'float', 'sqrt')), self.num(d - 1, qv))
        if c < 0.88:
            return ('call', r.choice(('max', 'min')), self.num(d - 1, qv), self.num(d - 1, qv))
        return ('call', r.choice(('len', 'sum', 'prod', 'max', 'min')), self.compound(d - 1, qv))

    def compound(self, d, qv=()):
        r = self.r
        c = r.random()
        if c < 0.35:
            return ('f', r.choice(('xs', 'ys')))
        if c < 0.7:
            return ('set',) + tuple(self.num(min(d, 1), qv) for _ in range(r.choice((1, 2, 3))))
        return ('range', self.num(min(d, 1), qv), self.num(min(d, 1), qv), r.random() < 0.3, r.random() < 0.3)

    def boolean(self, d, qv=()):
        r = self.r
        if d <= 0 or r.random() < 0.15:
            c = r.random()
            if c < 0.6:
                return ('f', r.choice('pqr'))
            if c < 0.75:
                return ('fa', ('var', 'A'), 'p')
            if c < 0.85:
                return ('lit', r.choice((True, False)))
            return ('bin', r.choice(('<', '=', '>')), self.num(0, qv), self.num(0, qv))
        c = r.random()
        if c < 0.3:
            return ('bin', r.choice(('=', '!=', '<', '<=', '>', '>=')), self.num(d - 1, qv), self.num(d - 1, qv))
        if c < 0.6:
            return ('bin', r.choice(('and', 'or', 'implies', 'iff', 'and', 'or')), self.boolean(d - 1, qv), self.boolean(d - 1, qv))
        if c < 0.72:
            return ('not', self.boolean(d - 1, qv))
        if c < 0.8:
            return ('bin', 'in', self.num(d - 1, qv), self.compound(d - 1, qv))
        if c < 0.85:
            return ('bin', r.choice(('=', '!=')), self.boolean(d - 1, qv), self.boolean(d - 1, qv))
        v = 'uvw'[len(qv)] if len(qv) < 3 else None
        if v is None:
            return self.boolean(d - 1, qv)
        for _ in range(6):
            body = self.boolean(d - 1, qv + (v,))
            if _uses_var(body, v):
                return ('q', r.choice(('forall', 'exists')), v, self.compound(d - 1, qv), body)
        return ('q', r.choice(('forall', 'exists')), v, self.compound(d - 1, qv), ('bin', '>', ('var', v), self.num(0, qv)))
