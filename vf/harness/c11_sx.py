"""Harness bodies for C11/C14 (canonical_form): usable concretely and under CrossHair."""
from __future__ import annotations

from typing import Any, Dict, List, Optional

from vf import props

XGT = ('bin', '>', ('f', 'x'), ('lit', 0))


def ref_pred(alias):
    return ('bin', '>', ('f', 'x'), ('fa', ('var', alias), 'x'))


def mk(scope_i: int, pattern_i: int, wa: int, wq: int, wt: int, wb: int, deco: int, max_time, title, nest: str = 'or') -> Dict[str, Any]:
    scope = props.SCOPES[scope_i]
    pattern = props.PATTERNS[pattern_i]
    p: Dict[str, Any] = {'scope': scope, 'pattern': pattern, 'activator': None, 'terminator': None, 'trigger': None,
                         'max_time': max_time, 'meta': None if title is None else {'title': title}}
    has_a = scope in ('after', 'after_until')
    has_q = scope in ('until', 'after_until')
    has_t = pattern in ('response', 'prevention', 'requirement')

    def event(prefix, w, alias_mode, ref):
        al = None
        pr = None
        if alias_mode == 'distinct':
            al = [f'{prefix.upper()}{i}' for i in range(w)]
        elif alias_mode == 'same':
            al = [prefix.upper()] * w
        if deco >= 1:
            pr = [(XGT if i % 2 == 0 else None) for i in range(w)]
        if ref is not None:
            pr = [ref_pred(ref) for _ in range(w)]
        ev = props.mk_event(prefix, w, al, pr)
        if nest != 'or' and ev[0] == 'or' and len(ev) > 3:
            ev = (nest,) + ev[1:]  # API-built nesting of the same alternatives in the same source order
        return ev

    if deco == 0:
        am = {'a': None, 'q': None, 't': None, 'b': None}
    elif deco == 1:
        am = {'a': 'distinct', 'q': 'distinct', 't': 'distinct', 'b': 'distinct'}
    elif deco == 2:
        am = {'a': 'same', 'q': None, 't': 'distinct', 'b': None}
    else:
        am = {'a': 'distinct', 'q': None, 't': 'distinct', 'b': None}
    refs = {'q': None, 't': None, 'b': None}
    if deco >= 2:
        first_a = ('A' if deco == 2 else 'A0') if has_a else None
        # later events reference the activator's alias where one exists, else the earlier pattern event's first alias
        if has_a:
            refs['q'] = first_a
        if has_t:
            if pattern == 'requirement':
                refs['t'] = first_a  # trigger comes after the behaviour, which binds nothing in these modes
                refs['b'] = first_a
            else:
                refs['t'] = first_a
                refs['b'] = 'T0' if wt == 1 else first_a
        else:
            refs['b'] = first_a
    if has_a:
        p['activator'] = event('a', wa, am['a'], None)
    if has_q:
        p['terminator'] = event('q', wq, am['q'], refs['q'])
    if has_t:
        p['trigger'] = event('t', wt, am['t'], refs['t'])
    p['behaviour'] = event('b', wb, am['b'], refs['b'])
    return p


def flat(ev) -> List[Any]:
    """alternatives of a real event object in source order (fields only)"""
    if type(ev).__name__ == 'HplEventDisjunction':
        return flat(ev.event1) + flat(ev.event2)
    return [ev]


KNOWN_ALIAS_CLASS = 'activator-alias-unbound-in-alternative'


def alias_defect_class(spec) -> bool:
    """activator disjunction whose alternatives bind different aliases, one of which a later event references:
    no valid per-alternative decomposition exists (recorded defect of hpl-specs)"""
    if not props.has_activator(spec):
        return False
    acts = props.simple_events(spec['activator'])
    if len(acts) < 2:
        return False
    names = {a[2] for a in acts}
    later = set()
    for pos in ('terminator', 'trigger', 'behaviour'):
        for e in props.simple_events(spec.get(pos)):
            later |= props.pred_free_vars(e[3])
    for n in later:
        if any(a[2] == n for a in acts) and not all(a[2] == n for a in acts):
            return True
    return False


def check(spec, twin: bool = False, totality: bool = False, want_text: bool = True):
    """None = C11 holds for this property spec; else a tuple (kind, detail...)"""
    from hpl.errors import HplSanityError
    from hpl.rewrite import canonical_form
    if props.binding_verdict(spec) is not None:
        return None  # not a valid property: outside the quantifier of C11
    prop = props.build_property(spec, cached_events=not want_text)
    text = props.render_property(spec) if want_text else ''  # never rendered under symbolic execution
    want_mt = spec.get('max_time')
    if (want_mt is None and prop.pattern.max_time != float('inf')) or (want_mt is not None and not (prop.pattern.max_time == want_mt)):
        return ('callback-time-bound', repr(prop.pattern.max_time), text)
    try:
        outs = canonical_form(prop)
    except Exception as e:
        if isinstance(e, HplSanityError) and alias_defect_class(spec):
            return ('known', KNOWN_ALIAS_CLASS, text)
        return ('exception', type(e).__name__, str(e)[:160], text)
    if twin:
        return ('reached',)
    if not isinstance(outs, list) or not outs or not all(type(o).__name__ == 'HplProperty' for o in outs):
        return ('wrong-kind', repr(outs)[:200], text)
    if totality:
        return None
    exp = props.expected_canonical(spec)
    if len(outs) != len(exp):
        return ('wrong-count', len(outs), len(exp), text)
    if len(exp) == 1 and exp[0] is spec:
        if outs[0] is not prop:
            return ('not-identity', text)
        return None
    acts = flat(prop.scope.activator) if prop.scope.activator is not None else [None]
    pos = props.SPLIT[spec['pattern']]
    alts = flat(getattr(prop.pattern, pos)) if pos else [None]
    i = 0
    for a in acts:
        for b in alts:
            o = outs[i]
            q = exp[i]
            i += 1
            if want_text:  # concrete mode only: equality with a fresh construction of the expected property
                want = props.build_property(q)
                if o != want:
                    return ('wrong-output', i - 1, str(o), str(want), text)
            if o.scope.scope_type is not prop.scope.scope_type or o.pattern.pattern_type is not prop.pattern.pattern_type:
                return ('kind-changed', i - 1, text)
            if o.scope.terminator is not prop.scope.terminator:
                return ('terminator-not-shared', i - 1, text)
            if a is not None and o.scope.activator is not a:
                return ('activator-not-source-alternative', i - 1, text)
            for role in ('behaviour', 'trigger'):
                got = getattr(o.pattern, role)
                if role == pos:
                    if got is not b:
                        return ('split-event-not-source-alternative', i - 1, role, text)
                elif got is not getattr(prop.pattern, role):
                    return ('other-event-not-shared', i - 1, role, text)
            if not (o.pattern.max_time == prop.pattern.max_time and o.pattern.min_time == prop.pattern.min_time):
                return ('time-bound-changed', i - 1, repr(o.pattern.max_time), text)
            if o.metadata != prop.metadata or o.pattern.metadata != prop.pattern.metadata:
                return ('metadata-changed', i - 1, repr(o.metadata), text)
            if o.metadata is prop.metadata:
                return ('metadata-shared', i - 1, text)
            again = canonical_form(o)
            if len(again) != 1 or again[0] is not o:
                return ('not-idempotent', i - 1, text)
    if want_text:
        r = derived_step(spec, prop, text)
        if r is not None:
            return r
    return None


def derived_step(spec, prop, text):
    """history: after canonical_form(prop), a copy of prop with another scope / pattern must get ITS OWN canonical form"""
    from hpl.rewrite import canonical_form
    for change in ('scope', 'pattern'):
        q = dict(spec)
        if change == 'scope':
            if spec['scope'] in ('until', 'after_until'):
                continue
            q['scope'] = 'until' if spec['scope'] == 'globally' else 'after_until'
            q['terminator'] = ('ev', 'stopper', None, None)
        else:
            if spec['pattern'] not in ('absence', 'existence'):
                continue
            q['pattern'] = 'existence' if spec['pattern'] == 'absence' else 'absence'
        if props.binding_verdict(q) is not None:
            continue
        want_q = props.build_property(q)
        copy = prop.but(scope=want_q.scope) if change == 'scope' else prop.but(pattern=want_q.pattern)
        try:
            outs = canonical_form(copy)
        except Exception as e:
            return ('derived-exception', change, type(e).__name__, text)
        exp = props.expected_canonical(q)
        if len(outs) != len(exp):
            return ('derived-wrong-count', change, len(outs), len(exp), text)
        for o, e in zip(outs, exp):
            if len(exp) == 1 and exp[0] is q:
                if o is not copy:
                    return ('derived-not-identity', change, text)
            elif o != props.build_property(e):
                return ('derived-wrong-output', change, str(o), text)
    return None


def body(scope_i: int, pattern_i: int, wa: int, wq: int, wt: int, wb: int, deco: int, max_time: float, bounded: bool,
         title: str, twin: bool = False, totality: bool = False):
    spec = mk(scope_i, pattern_i, wa, wq, wt, wb, deco, max_time if bounded else None, title)
    r = check(spec, twin=twin, totality=totality, want_text=False)
    if r is not None and r[0] == 'known':
        return None
    return r
