"""SX harness bodies for C08/C14: real simplify on templates whose literal values and valuation are symbolic."""
from __future__ import annotations

from typing import Any, List, Tuple

from vf import gen, sem

ARITH = ('+', '-', '*')  # '/' and '**' on symbolic ints leave CrossHair's decidable fragment (probed: Not confirmed); EQ covers them
CMP = ('=', '!=', '<', '<=', '>', '>=')

X, Y, P, Q = ('f', 'x'), ('f', 'y'), ('f', 'p'), ('f', 'q')
AX = ('fa', ('var', 'A'), 'x')
C0, C1, C2 = ('sym', 0), ('sym', 1), ('sym', 2)


def _templates() -> List[Tuple[str, Any]]:
    T: List[Tuple[str, Any]] = []
    for o in ARITH:
        for c in CMP:
            T.append((f'(x {o} c0) {c} c1', ('bin', c, ('bin', o, X, C0), C1)))
            T.append((f'(c0 {o} x) {c} c1', ('bin', c, ('bin', o, C0, X), C1)))
            T.append((f'(x {o} c0) {c} x', ('bin', c, ('bin', o, X, C0), X)))
    for o in ARITH:
        for c in CMP:
            T.append((f'(@A.x {o} c0) {c} @A.x', ('bin', c, ('bin', o, AX, C0), AX)))
            T.append((f'(@A.x {o} c0) {c} c1', ('bin', c, ('bin', o, AX, C0), C1)))
    for o in ARITH:
        for c in ('=', '<'):
            T.append((f'(x {o} c0) {c} (y {o} c1)', ('bin', c, ('bin', o, X, C0), ('bin', o, Y, C1))))
            T.append((f'c0 {c} (x {o} c1)', ('bin', c, C0, ('bin', o, X, C1))))
    for o1 in ARITH:
        for o2 in ARITH:
            T.append((f'((x {o1} c0) {o2} c1) = y', ('bin', '=', ('bin', o2, ('bin', o1, X, C0), C1), Y)))
            T.append((f'(c0 {o1} (x {o2} c1)) = y', ('bin', '=', ('bin', o1, C0, ('bin', o2, X, C1)), Y)))
            T.append((f'((x {o1} c0) {o2} (y {o1} c1)) = 0', ('bin', '=', ('bin', o2, ('bin', o1, X, C0), ('bin', o1, Y, C1)), ('lit', 0))))
    for o in ARITH:
        T.append((f'(c0 {o} c1) < x', ('bin', '<', ('bin', o, C0, C1), X)))
        T.append((f'(x {o} -c0) = y', ('bin', '=', ('bin', o, X, ('neg', C0)), Y)))
        T.append((f'(x {o} -y) = c0', ('bin', '=', ('bin', o, X, ('neg', Y)), C0)))
        T.append((f'(-x {o} x) = c0', ('bin', '=', ('bin', o, ('neg', X), X), C0)))
    for f in ('max', 'min'):
        T.append((f'{f}(x, c0, c1) < y', ('bin', '<', ('call', f, X, C0, C1), Y)))
        T.append((f'{f}(c0, c1) < y', ('bin', '<', ('call', f, C0, C1), Y)))
        T.append((f'{f}({{x, c0, c1}}) < y', ('bin', '<', ('call', f, ('set', X, C0, C1)), Y)))
        for fl in ((False, False), (True, False), (False, True), (True, True)):
            T.append((f'{f}(range c0 c1 {fl}) < y', ('bin', '<', ('call', f, ('range', C0, C1) + fl), Y)))
    for f in ('sum', 'prod', 'len'):
        T.append((f'{f}({{x, c0, c1}}) < y', ('bin', '<', ('call', f, ('set', X, C0, C1)), Y)))
        T.append((f'{f}({{c0, c1}}) < y', ('bin', '<', ('call', f, ('set', C0, C1)), Y)))
        for fl in ((False, False), (True, False), (False, True), (True, True)):
            T.append((f'{f}(range c0 c1 {fl}) < y', ('bin', '<', ('call', f, ('range', C0, C1) + fl), Y)))
    for f in ('abs', 'int', 'ceil', 'floor', 'bool'):
        if f == 'bool':
            T.append((f'bool(c0) and p', ('bin', 'and', ('call', f, C0), P)))
        else:
            T.append((f'{f}(c0) < x', ('bin', '<', ('call', f, C0), X)))
            if f == 'abs':
                T.append((f'{f}(x + c0) < c1', ('bin', '<', ('call', f, ('bin', '+', X, C0)), C1)))
    T.append(('gcd(c0, c1) < x', ('bin', '<', ('call', 'gcd', C0, C1), X)))
    for l in ('and', 'or', 'implies', 'iff'):
        T.append((f'(x < c0) {l} (x < c1)', ('bin', l, ('bin', '<', X, C0), ('bin', '<', X, C1))))
        T.append((f'(x = c0) {l} (not (x = c1))', ('bin', l, ('bin', '=', X, C0), ('not', ('bin', '=', X, C1)))))
        T.append((f'p {l} (c0 < c1)', ('bin', l, P, ('bin', '<', C0, C1))))
        T.append((f'(c0 = c1) {l} p', ('bin', l, ('bin', '=', C0, C1), P)))
    T.append(('x in [c0 to c1]', ('bin', 'in', X, ('range', C0, C1, False, False))))
    T.append(('x in {c0, c1}', ('bin', 'in', X, ('set', C0, C1))))
    T.append(('c2 in {c0, c1}', ('bin', 'in', C2, ('set', C0, C1))))
    T.append(('(x in {c0, c1}) and (x != c0)', ('bin', 'and', ('bin', 'in', X, ('set', C0, C1)), ('bin', '!=', X, C0))))
    T.append(('x * c0 * c1 = y', ('bin', '=', ('bin', '*', ('bin', '*', X, C0), C1), Y)))
    T.append(('x + c0 + y + c1 = c2', ('bin', '=', ('bin', '+', ('bin', '+', ('bin', '+', X, C0), Y), C1), C2)))
    return T


TEMPLATES = _templates()


def subst(spec, cs):
    if spec[0] == 'sym':
        return ('lit', cs[spec[1]])
    return tuple(subst(s, cs) if isinstance(s, tuple) else s for s in spec)


def nsyms(spec) -> int:
    if spec[0] == 'sym':
        return spec[1] + 1
    return max([nsyms(s) for s in spec if isinstance(s, tuple)] + [0])


class Reached(Exception):
    pass


def body(i: int, c0: int, c1: int, c2: int, x: int, y: int, p: bool, twin: bool = False, totality: bool = False):
    """None = property holds for this input; otherwise a tuple describing the violation"""
    from hpl.rewrite import simplify
    name, tmpl = TEMPLATES[i]
    spec = subst(tmpl, (c0, c1, c2))
    try:
        ast = gen.build(spec)
    except TypeError:
        return None
    heap = sem.DictHeap({'x': x, 'y': y, 'p': p}, aliases={'A': {'x': y}})  # @A.x takes y's value
    if totality:
        # C14: only "no internal error, result of the documented kind"; no valuation involved
        try:
            out = simplify(ast)
        except Exception as e:
            if isinstance(e, ZeroDivisionError) or _closed_undefined(spec):
                return None
            return ('exception', name, type(e).__name__, str(e)[:200])
        if twin:
            return ('reached', name)
        if not getattr(out, 'is_expression', False) or out.data_type != ast.data_type:
            return ('wrong-kind', name, str(out))
        return None
    try:
        vi = sem.pyeval(ast, heap)
        in_def = True
    except sem.Undef:
        vi = None
        in_def = False
    # second admissible reading of enumerated sets under len/sum/prod (deduplicated): a difference must exist under both
    heap2 = sem.DictHeap({'x': x, 'y': y, 'p': p}, aliases={'A': {'x': y}})
    heap2.reading = 'set'
    try:
        vi2 = sem.pyeval(ast, heap2)
    except sem.Undef:
        vi2 = vi
    try:
        out = simplify(ast)
    except Exception as e:  # never BaseException: CrossHair steers with those
        if in_def:
            return ('exception-on-defined-input', name, type(e).__name__, str(e)[:200])
        if isinstance(e, ZeroDivisionError) or _closed_undefined(spec):
            return None
        return ('exception', name, type(e).__name__, str(e)[:200])
    if twin:
        return ('reached', name)
    if not in_def:
        return None
    try:
        vo = sem.pyeval(out, heap)
    except sem.Undef as u:
        return ('undefined-output', name, str(out), str(u))
    if not sem.value_equal(vi, vo):
        try:
            vo2 = sem.pyeval(out, heap2)
        except sem.Undef:
            vo2 = None
        if vo2 is not None and sem.value_equal(vi2, vo2):
            return None  # equal under the deduplicated reading of a set literal with coinciding elements: not claimed
        return ('different', name, str(out), repr(vi), repr(vo))
    if out.data_type != ast.data_type:
        return ('type-changed', name, str(out))
    return None


def _closed_undefined(spec) -> bool:
    """a reference-free subterm of the (concrete or symbolic) spec is undefined — evaluated with the harness evaluator"""
    def closed(s):
        return s[0] in ('lit',) or (s[0] in ('bin', 'neg', 'call', 'set', 'range') and all(closed(t) for t in s[1:] if isinstance(t, tuple)))

    def walk(s):
        if closed(s) and s[0] not in ('set', 'range', 'lit'):
            try:
                sem.pyeval(gen.build(s), sem.Heap(), {})
            except sem.Undef:
                return True
            except TypeError:
                return False
        return any(walk(t) for t in s[1:] if isinstance(t, tuple))

    return walk(spec)
