from vf import gen, sem
from hpl.rewrite import simplify

ARITH = ('+', '-', '*', '**')
CMP = ('=', '!=', '<', '<=', '>', '>=')


def _lit(c):
    return ('lit', c)


def body(shape: int, op1: int, op2: int, c0: int, c1: int, x: int, y: int):
    a = ('f', 'x')
    b = ('f', 'y')
    o1 = ARITH[op1]
    o2 = CMP[op2]
    if shape == 0:
        spec = ('bin', o2, ('bin', o1, a, _lit(c0)), _lit(c1))
    elif shape == 1:
        spec = ('bin', o2, ('bin', o1, _lit(c0), a), _lit(c1))
    elif shape == 2:
        spec = ('bin', o2, ('bin', o1, a, _lit(c0)), a)
    else:
        spec = ('bin', o2, ('bin', o1, a, _lit(c0)), ('bin', o1, b, _lit(c1)))
    try:
        ast = gen.build(spec)
    except TypeError:
        return None
    try:
        out = simplify(ast)
    except ZeroDivisionError:
        return None
    heap = sem.DictHeap({'x': x, 'y': y})
    try:
        vi = sem.pyeval(ast, heap)
    except sem.Undef:
        return None
    try:
        vo = sem.pyeval(out, heap)
    except sem.Undef:
        return ('undef-out', spec)
    if vi != vo:
        return ('diff', spec, str(out), vi, vo)
    return None


def h(shape: int, op1: int, op2: int, c0: int, c1: int, x: int, y: int) -> bool:
    """
    pre: 0 <= shape < 4 and 0 <= op1 < 3 and 0 <= op2 < 6 and -2 <= c0 <= 2 and -2 <= c1 <= 2
    post: _
    """
    return body(shape, op1, op2, c0, c1, x, y) is None


def h1(c0: int, c1: int, x: int, y: int) -> bool:
    """
    pre: -3 <= c0 <= 3 and -3 <= c1 <= 3
    post: _
    """
    return body(0, 0, 2, c0, c1, x, y) is None


def h2(c0: int, c1: int, x: int, y: int) -> bool:
    """
    pre: -3 <= c0 <= 3 and -3 <= c1 <= 3
    post: _
    """
    return body(3, 2, 0, c0, c1, x, y) is None
