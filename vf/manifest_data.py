"""Per-check manifest texts. bin/mkmanifest.py turns this into MANIFEST.json."""

ENGINES = [
    {'name': 'SF', 'path': 'vf/sf.py', 'serves_properties': ['C20'],
     'kind_free_text': 'decision-list symbolic executor running the real hpl.types.DataType function objects on z3 bit-vector proxies'},
]

NOTES = ('Solver-based checking of the real code: every verdict is a z3/CrossHair verdict over all values inside the stated bound; '
         'counterexamples are replayed on the real code before being reported; unknown/timeouts exit 2 (inconclusive).')

CHECKS = {
    'C20': {
        'engine': 'SF',
        'category': 'proof',
        'text': ('Complete over the finite domain: the real cast/can_be/can_be_*/union function objects are executed on symbolic 7-bit '
                 'type sets (every feasible path), and each law of the statement is a z3 validity query over all 2^7 (x 2^7 x 2^7) values.'),
        'design_ref': 'DESIGN.md 1 (SF), 4 (C20)',
        'note': ('Trusted: z3 bit-vector procedure; CPython enum.Flag operators (compared with the proxy model on all 128x128 pairs each run); '
                 'the 100-line path explorer (its path conditions are checked to cover the whole domain).'),
        'technique': 'symbolic execution of the real methods on z3 bit-vector proxies + validity queries (finite domain, complete)',
    },
}

NOT_APPLICABLE = {}
