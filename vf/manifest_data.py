"""Per-check manifest texts. bin/mkmanifest.py turns this into MANIFEST.json."""

ENGINES = [
    {'name': 'EQ', 'path': 'vf/eq.py, vf/sem.py', 'serves_properties': ['C08', 'C09', 'C10', 'C13', 'C14'],
     'kind_free_text': 'real hpl.rewrite / hpl.ast code run on enumerated trees; input and output ASTs translated to quantifier-free z3 terms; equivalence decided for all valuations; models replayed through an independent Python evaluator'},
    {'name': 'SP', 'path': 'vf/sp.py', 'serves_properties': ['C02', 'C15'],
     'kind_free_text': 'decision-list symbolic executor running the real hpl.ast constructors/queries on str proxies whose identity is a z3 Int (symbolic alias/variable/channel names)'},
    {'name': 'FP', 'path': 'vf/fp.py', 'serves_properties': ['C06', 'C01'],
     'kind_free_text': 'Python-ast -> z3 Float64 translation of HplPattern.__str__ and PropertyTransformer.time_amount, regenerated from the current source'},
    {'name': 'LX', 'path': 'vf/lx.py', 'serves_properties': ['C01', 'C07'],
     'kind_free_text': 'z3 string/regex obligations generated from the live Lark terminals and per-state contextual scanners'},
    {'name': 'GX', 'path': 'vf/gx.py, vf/refgrammar.py', 'serves_properties': ['C01', 'C07', 'C18'],
     'kind_free_text': 'CYK-style derivability of a symbolic token string in z3 for the live Lark.rules vs a frozen reference grammar, with explicit operator/property brackets for structure'},
    {'name': 'IE', 'path': 'vf/ieee.py', 'serves_properties': ['C13'],
     'kind_free_text': 'comparison skeleton of Boolean expressions over z3 Float64 operands (NaN and infinities included); models replayed with Python floats'},
    {'name': 'TR', 'path': 'vf/tr.py', 'serves_properties': ['C12'],
     'kind_free_text': 'z3 formula of the reference trace semantics generated from real HplProperty objects over a symbolic timed trace; Python evaluator for replay'},
    {'name': 'SX', 'path': 'vf/sx.py, vf/harness/', 'serves_properties': ['C08', 'C11', 'C14'],
     'kind_free_text': 'CrossHair symbolic execution of harness functions that drive the real hpl code with symbolic literal values, valuations, widths, time bounds and metadata; one process per condition, reachability twin per harness'},
    {'name': 'SF', 'path': 'vf/sf.py', 'serves_properties': ['C20', 'C16', 'C03', 'C04', 'C05'],
     'kind_free_text': 'decision-list symbolic executor running the real hpl.types.DataType function objects on z3 bit-vector proxies'},
]

NOTES = ('Solver-based checking of the real code: every verdict is a z3/CrossHair verdict over all values inside the stated bound; '
         'counterexamples are replayed on the real code before being reported; unknown/timeouts exit 2 (inconclusive).')

CHECKS = {
    'C20': {
        'engine': 'SF',
        'category': 'proof',
        'text': ('Complete over the finite domain: the real cast/can_be/can_be_*/union function objects are executed on symbolic 7-bit '
                 'type sets (every feasible path), and each law of the statement is a z3 validity query over all 2^7 (x 2^7 x 2^7) values.'),
        'design_ref': 'DESIGN.md 1 (SF), 4 (C20)',
        'note': ('Trusted: z3 bit-vector procedure; CPython enum.Flag operators (compared with the proxy model on all 128x128 pairs each run); '
                 'the 100-line path explorer (its path conditions are checked to cover the whole domain).'),
        'technique': 'symbolic execution of the real methods on z3 bit-vector proxies + validity queries (finite domain, complete)',
    },
}

CHECKS.update({
    'C08': {
        'engine': 'EQ+SX', 'category': 'other', 'design_ref': 'DESIGN.md 1 (EQ, SX), 3.1, 4 (C08)',
        'text': ('Bounded symbolic: (EQ) every tree of the enumerated families goes through the real simplify and z3 decides input/output equivalence for ALL valuations '
                 '(unbounded reals/strings, arrays up to K); (SX) CrossHair executes the real simplify with symbolic literal values and valuation and must confirm every '
                 'template over all paths. Holds within the stated tree/literal bounds; says nothing beyond them.'),
        'note': 'Trusted: z3, CrossHair, the reference semantics in vf/sem.py (partial where HPL is undocumented), Python float arithmetic for constant subtrees.',
        'technique': 'z3 equivalence of real rewrite input/output over all valuations + CrossHair symbolic execution with symbolic literals',
    },
    'C09': {
        'engine': 'EQ', 'category': 'other', 'design_ref': 'DESIGN.md 1 (EQ), 4 (C09)',
        'text': 'Real split_and on every tree of the boolean/quantifier families; z3 decides conjunction(outputs) == input for all valuations incl. empty domains; indivisibility checked syntactically; ValueError licence decided by z3.',
        'note': 'Trusted: z3, vf/sem.py semantics (strict definedness incl. hoisted invariant subterms, schema-consistent valuations).',
        'technique': 'z3 equivalence of real rewrite input/output over all valuations (bounded trees, arrays up to K)',
    },
    'C10': {
        'engine': 'EQ', 'category': 'other', 'design_ref': 'DESIGN.md 1 (EQ), 4 (C10)',
        'text': 'Real refactor_reference on every (tree, alias, expression|predicate) case; z3 decides f1 and f2 == f for all valuations; alias-freedom and variable capture decided by an independent walker.',
        'note': 'Trusted: z3, vf/sem.py semantics.',
        'technique': 'z3 equivalence of real rewrite input/output over all valuations (bounded trees, arrays up to K)',
    },
    'C11': {
        'engine': 'SX', 'category': 'other', 'design_ref': 'DESIGN.md 1 (SX), 4 (C11)',
        'text': ('CrossHair must confirm, over all paths, 80 harnesses (scope kind x pattern kind x decoration mode) in which disjunction widths, the time bound (symbolic float), '
                 'boundedness and metadata (symbolic string) are solver variables, against the decomposition computed from the statement; a concrete grid over wider widths runs the same oracle as a cross-check.'),
        'note': 'Trusted: CrossHair/z3; events are built once outside tracing (opaque to the code under test).',
        'technique': 'CrossHair symbolic execution of the real canonical_form with symbolic widths/time bound/metadata',
    },
    'C13': {
        'engine': 'EQ', 'category': 'other', 'design_ref': 'DESIGN.md 1 (EQ), 4 (C13)',
        'text': 'Real negate/join/replace_*/event alias normalisation on enumerated trees incl. one tree per (node kind x child slot); z3 decides each semantic identity for all valuations with the alias bound to the current message; negate/join are also decided under an IEEE (Float64, NaN/inf) reading of the comparison skeleton (vf/ieee.py).',
        'note': 'Trusted: z3, vf/sem.py semantics.',
        'technique': 'z3 equivalence of real rewrite input/output over all valuations (bounded trees, arrays up to K)',
    },
    'C14': {
        'engine': 'EQ+SX', 'category': 'other', 'design_ref': 'DESIGN.md 1, 4 (C14)',
        'text': ('Every rewriting entry point on every tree of the union of the families (expression and predicate form) and canonical_form on the property grid: no exception outside the licences, '
                 'result of the documented kind; licences decided by z3 / an independent type oracle; CrossHair confirms totality of simplify over symbolic literal values for the value-dependent sites.'),
        'note': 'Trusted: z3, CrossHair. The enumeration of API calls is concrete; the solver decides the licences and the literal-value space.',
        'technique': 'CrossHair symbolic execution over literal values + z3-decided licences on enumerated API calls',
    },
})

CHECKS['C12'] = {
    'engine': 'TR', 'category': 'model_checking', 'design_ref': 'DESIGN.md 1 (TR), 3.3, 4 (C12)',
    'text': ('Bounded model checking in z3: for every enumerated property shape the real canonical_form output is compared with the input over ALL timed traces up to the '
             'length bound (symbolic topics, real timestamps, payloads), under two readings of scope re-activation; hand-made wrong splits must be distinguished (vacuity guard).'),
    'note': 'Trusted: z3; the reference trace semantics of DESIGN.md 3.3 (docs/lang.md is informal), implemented twice (z3 generator and Python evaluator used for replay).',
    'technique': 'z3 bounded model checking over symbolic timed traces of the real canonical_form output vs input',
}

CHECKS['C02'] = {
    'engine': 'SP', 'category': 'other', 'design_ref': 'DESIGN.md 1 (SP), 3.2, 4 (C02)',
    'text': ('Symbolic names: the real constructors and sanity check run on z3-backed str proxies under every feasible decision sequence, for every enumerated shape '
             '(scope x pattern x widths x alias/reference placement x construction route); the accept/reject outcome must equal an oracle written from the statement on every path. '
             'All coincidence patterns of alias, reference, variable and channel names are covered; shapes are bounded.'),
    'note': 'Trusted: z3; the proxy str subclass (every path is re-run with real str names on the real code and must agree); the oracle in vf/props.py.',
    'technique': 'symbolic execution of the real constructors on z3-backed name proxies (all feasible paths) vs statement oracle',
}

CHECKS['C15'] = {
    'engine': 'SP', 'category': 'other', 'design_ref': 'DESIGN.md 1 (SP), 4 (C15)',
    'text': ('Symbolic names: every query method runs on trees (one per node kind x child slot x leaf form x wrapper, at expression/predicate/event/disjunction level) whose variable, '
             'quantifier, probe and alias names are z3-backed proxies, under every feasible decision sequence, and must agree with oracles computed on the tree specs; iterate() is compared with a field-wise preorder.'),
    'note': 'Trusted: z3; the proxy str subclass (every path re-run with real str names); oracles in vf/checks/c15.py and vf/props.py.',
    'technique': 'symbolic execution of the real query methods on z3-backed name proxies (all feasible paths) vs statement oracle',
}

CHECKS['C16'] = {
    'engine': 'SF+snapshots', 'category': 'other', 'design_ref': 'DESIGN.md 1 (SF), 4 (C16)',
    'text': ('SF: 113 construction forms (every operator, set, range, access, quantifier, function; constructor and parser-callback routes), cast() and but() run on children whose '
             'stored type set is a symbolic 7-bit term; z3 decides for ALL type sets that the children handed in are left unchanged (the constructor-level in-place narrowing is a recorded finding). '
             'Deep-snapshot exploration of every API on every subtree and of call sequences up to 3 complements it.'),
    'note': 'Trusted: z3, vf/sf.py explorer. The snapshot exploration is concrete execution (structure, stored types, metadata, hash compared before/after).',
    'technique': 'symbolic type sets through the real constructors/cast/but (z3 validity per path) + snapshot comparison of API call sequences',
}

CHECKS['C03'] = {
    'engine': 'SF+walker', 'category': 'other', 'design_ref': 'DESIGN.md 1 (SF), 3.2, 4 (C03)',
    'text': ('SF: every construction form (113: operators, sets, ranges, accesses, quantifiers, 27 functions; constructor and parser-callback routes) runs on children with symbolic 7-bit type sets; z3 decides '
             'for ALL type sets that results carry the declared type and stored children carry exactly child /\\ parameter. An independent walker checks the full invariant list on every AST returned by parsing, by each rewriting function and by compositions of two.'),
    'note': 'Trusted: z3, vf/sf.py explorer, the re-stated signature table in vf/symtypes.py. Whole-tree invariants are checked by concrete walking of real outputs (bounded families).',
    'technique': 'symbolic type sets through the real constructors (z3 validity per path) + invariant walker on real outputs',
}
CHECKS['C05'] = {
    'engine': 'SF+injection', 'category': 'other', 'design_ref': 'DESIGN.md 1 (SF), 4 (C05)',
    'text': ('SF: for ALL child type sets of every construction form, construction succeeds only if every child is compatible with its parameter type, and raises only TypeError. '
             'Exhaustive single-clash injection at every argument position of the enumerated trees, through the callbacks and the real text parser, must raise TypeError.'),
    'note': 'Trusted: z3, vf/sf.py explorer, the re-stated signature table. Injection positions are enumerated; the clash table is finite.',
    'technique': 'symbolic type sets through the real constructors (z3 validity per path) + exhaustive clash injection',
}

CHECKS['C04'] = {
    'engine': 'SF+generation', 'category': 'other', 'design_ref': 'DESIGN.md 1 (SF), 3.2, 4 (C04)',
    'text': ('SF: for ALL child type sets of every construction form, children that are compatible with their parameter types are never rejected. '
             'Schema-directed generation of well-typed predicates over two schemas: accepted by callbacks and real parser, every reference inferred at a type set containing its schema type, property-level schema check succeeds.'),
    'note': 'Trusted: z3, vf/sf.py explorer, re-stated signature table, the schema oracle in vf/schemas.py. Generated predicates are a bounded enumeration (depth <= 3, two schemas).',
    'technique': 'symbolic type sets through the real constructors (z3 validity per path) + schema-directed generation',
}
CHECKS['C17'] = {
    'engine': 'SP+BV', 'category': 'other', 'design_ref': 'DESIGN.md 1 (SP), 4 (C17)',
    'text': ('SP: symbolic field names (also as schema keys), array lengths and literal indices through the real type_check_references/_get_next_token/contains_index, all feasible paths vs the schema oracle; '
             'exhaustive single-fault injection at every reference position of the C04 predicates; z3 bit-vector queries prove each predefined integer token carries exactly its two\'s-complement bounds (complete per width); '
             'token constructors with symbolic min/max/length; navigation helpers with a symbolic probe name.'),
    'note': 'Trusted: z3; proxies (each path re-run with real str/int values); schema oracle in vf/schemas.py.',
    'technique': 'symbolic execution on z3-backed name/int proxies + bit-vector queries + single-fault injection',
}

CHECKS['C06'] = {
    'engine': 'FP+roundtrip', 'category': 'other', 'design_ref': 'DESIGN.md 1 (FP), 4 (C06)',
    'text': ('FP: the float arithmetic of the real HplPattern.__str__ and PropertyTransformer.time_amount is translated from their current source into z3 Float64 terms and the print/parse '
             'round trip of the time bound is decided for ALL finite doubles >= 0 (complete for that obligation). print -> parse -> print with equality, hash, fixed point and printer injectivity over every accepted text of the families.'),
    'note': 'Trusted: z3 floating-point theory; CPython repr/float round trip; the 200-line Python-ast -> z3 translator (fails loudly outside its fragment). The print/parse part is concrete execution of real parser and printers.',
    'technique': 'z3 Float64 encoding generated from the real printing/parsing source + print/parse/print on enumerated accepted texts',
}

CHECKS['C01'] = {
    'engine': 'LX+GX+SP+FP', 'category': 'other', 'design_ref': 'DESIGN.md 1 (LX, GX, SP, FP), 4 (C01)',
    'text': ('Compositional and bounded: LX decides in z3 regex theory, over the live lexer tables of all four entry points, that no keyword terminal cuts a longer word (all strings) and that terminal languages equal '
             'the documented sets; GX decides with a CYK encoding in z3 that the live rule set and a frozen reference grammar (precedence table) derive the same token strings and assign the same operator constituents, '
             'for all token strings up to the bound; SP runs the real callbacks on a symbolic operator token; FP covers ms/s. A differential run through the real parser (minimal/redundant parentheses, random layout) ties the layers together.'),
    'note': 'Trusted: z3 (sequence/regex, arithmetic); Lark LALR table construction and runtime implement Lark.rules (cross-checked on real token streams); the reference grammar vf/refgrammar.py.',
    'technique': 'z3 regex queries over live lexer tables + CYK-in-z3 grammar equivalence (language and bracketing) + symbolic callback tokens',
}

CHECKS['C07'] = {
    'engine': 'LX+GX', 'category': 'other', 'design_ref': 'DESIGN.md 1 (LX, GX), 4 (C07)',
    'text': ('z3 enumerates the finite languages of the operator/constant/unit/boolean/bracket terminals of the live lexer and each lexeme is fed to the callback that receives it; z3 regex inclusion shows NUMBER lexemes are always convertible; '
             'z3 enumerates derivable token strings of the live rule set (and one-token perturbations) that the real parser must turn into an AST or a documented error; token-level mutations of a corpus and raw strings; '
             'explorer-driven sequences of three calls on one parser object for statelessness.'),
    'note': 'Trusted: z3; the concrete parse runs are sampling inside the stated generators (mutations are exhaustive per position for single-token deletions).',
    'technique': 'z3 regex language enumeration/inclusion over live lexer tables + z3-enumerated grammar witnesses parsed by the real parser',
}
CHECKS['C18'] = {
    'engine': 'GX+SP', 'category': 'other', 'design_ref': 'DESIGN.md 1 (GX, SP), 4 (C18)',
    'text': ('GX: CYK-in-z3 comparison of the live file rule set with the reference grammar with explicit property brackets: same language and same segmentation into annotated properties for all bracketed token strings up to the bound; '
             'SP: the real metadata callback on symbolic annotation keys (syntax error iff a key repeats); end-to-end: generated files of 1..6 members equal the list of stand-alone parses or fail with the offending member\'s error class.'),
    'note': 'Trusted: z3; Lark implements Lark.rules; proxies re-run with real strings.',
    'technique': 'CYK-in-z3 grammar equivalence with property brackets + symbolic annotation keys + file/member differential',
}

CHECKS['C19'] = {
    'engine': 'FP+CLI', 'category': 'other', 'design_ref': 'DESIGN.md 1 (FP), 4 (C19)',
    'text': ('FP: hpl.cli._ast_object_serializer is translated from its current source to z3 Float64 terms and decided for ALL doubles (null exactly for non-finite values): this is what makes the JSON strictly valid. '
             'The real hpl.cli.main and `python -m hpl` are then executed over a pool of valid/invalid property texts and files with every flag combination; exit status, absence of JSON on failure, strict JSON and field-by-field equality with an independent serialisation are compared.'),
    'note': 'Weakest use of the solver in the suite (stated in DESIGN.md): after the serializer obligation everything is concrete execution of the CLI on the stated pool.',
    'technique': 'z3 Float64 encoding of the JSON serializer hook generated from source + concrete CLI runs against an independent serialisation',
}

NOT_APPLICABLE = {}
