"""C10 refactor_reference isolates the alias-dependent part without changing meaning."""
from __future__ import annotations

from vf import eq, families, gen, rw, sem
from vf.common import Check, short

K = 2
ALIASES = ('A', 'B')


def check_pair(f, f1, f2, alias, text, rep):
    """f, f1, f2: expressions"""
    if sem.mentions_var(f1, alias):
        return ('finding', f'alias-left-behind@{alias}@{text}', f'refactor_reference({text}, {alias}) first part still mentions @{alias}: {f1}', rep)
    fv = sem.free_vars(f)
    esc = (sem.free_vars(f1) | sem.free_vars(f2)) - fv
    if esc:
        return ('finding', f'variable-escapes@{alias}@{text}', f'refactor_reference({text}, {alias}) = ({f1}, {f2}) has free variables {sorted(esc)} that were bound in the input', rep)
    for p in (f1, f2):
        bad = rw.check_valid(p)
        if bad:
            return ('finding', f'invalid-output@{alias}@{text}', f'refactor_reference({text}, {alias}) returned invalid AST {p}: {bad}', rep)
    if not sem.mentions_var(f, alias):
        lit_true = sem.kind(f2) == 'HplLiteral' and f2.value is True
        if f1 is not f or not lit_true:
            return ('finding', f'not-identity-without-alias@{alias}@{text}', f'{text} does not mention @{alias} but refactor_reference returned ({f1}, {f2})', rep)
        return ('identity', None, None, 0.0)
    r = eq.equivalent(f, [f1, f2], K=K, conj=True)
    if r.verdict == 'sat':
        rep = dict(rep)
        rep.update({'valuation': r.valuation, 'value_in': repr(r.vin), 'value_out': repr(r.vout)})
        return ('finding', f'not-equivalent@{alias}@{text}', f'refactor_reference({text}, {alias}) = ({f1}, {f2}); at {r.valuation} input is {r.vin[1]!r}, f1 and f2 is {r.vout}', rep)
    if r.verdict != 'unsat':
        return ('unknown', None, f'{text} => ({f1}, {f2}): {r.verdict} {r.note}', None)
    return ('ok' if r.reach else 'vacuous', None, None, r.secs)


def case(item) -> tuple:
    from hpl.ast.predicates import HplPredicateExpression
    from hpl.rewrite import refactor_reference
    from hpl.types import DataType
    spec, alias, as_pred = item
    ast, note = rw.build_or_none(spec)
    if ast is None:
        return ('illtyped', note, None, None)
    if not ast.data_type & DataType.BOOL or sem.kind(ast) == 'HplLiteral':
        return ('illtyped', 'not boolean', None, None)
    try:
        pred = HplPredicateExpression(ast)
    except TypeError:
        return ('illtyped', 'predicate', None, None)
    f = pred.condition
    text = str(f)
    rep = {'kind': 'refactor_reference', 'spec': spec, 'alias': alias, 'as_predicate': as_pred, 'text': text}
    try:
        res = refactor_reference(pred if as_pred else f, alias)
    except Exception as e:
        return ('finding', f'{rw.exc_signature(e)}@{alias}@{text}', f'refactor_reference({text}, {alias}) raised {type(e).__name__}: {short(e, 120)}', rep)
    if not isinstance(res, tuple) or len(res) != 2:
        return ('finding', f'not-a-pair@{text}', f'refactor_reference({text}, {alias}) returned {res!r}', rep)
    f1, f2 = res
    rep['output'] = [str(f1), str(f2)]
    if not as_pred and len(text) % 4 == 0:
        h = rw.history_dependence(lambda x: refactor_reference(x, alias), HplPredicateExpression(gen.build(spec)).condition,
                                  holds=lambda d, o: check_pair(d, o[0], o[1], alias, str(d), {})[0] != 'finding')
        if h:
            return ('finding', f'history@{alias}@{text}', f'refactor_reference depends on earlier calls: {h}', rep)
    if as_pred:
        if not (f1.is_predicate and f2.is_predicate):
            return ('finding', f'not-predicates@{text}', f'predicate in, but got ({f1!r}, {f2!r})', rep)
        if not sem.mentions_var(f, alias) and not (f1 == pred and f2.is_vacuous and f2.is_true):
            return ('finding', f'not-identity-without-alias@{alias}@{text}', f'{{{text}}} does not mention @{alias} but the result is ({f1}, {f2})', rep)
        return check_pair(f, f1.condition, f2.condition, alias, text, rep)
    return check_pair(f, f1, f2, alias, text, rep)


worker = rw.make_worker(case)


def main() -> int:
    ck = Check('C10', 'other', 'real refactor_reference executed on enumerated boolean/quantifier trees with alias references at every position; '
               'z3 decides f1 and f2 == f for all valuations; alias-freedom and variable capture checked with an independent walker')
    ck.functions('hpl.rewrite.refactor_reference', 'hpl.rewrite._refactor_ref_pred', 'hpl.rewrite._refactor_ref_expr', 'hpl.rewrite._split_ref_operator',
                 'hpl.rewrite._split_ref_negation', 'hpl.rewrite._split_ref_quantifier', 'hpl.rewrite.empty_test',
                 'hpl.ast.expressions.*.contains_reference')
    base = families.boolean_families(ck.tier, alias_heavy=True)
    n_rand = 1500 if ck.tier == 'quick' else 20000
    base['random(seed)'] = families.uniq(families.random_specs(ck.seed + 10, n_rand * 2, 4 if ck.tier == 'quick' else 5))[:n_rand]
    fams = {}
    for name, specs in base.items():
        items = []
        for i, s in enumerate(specs):
            items.append((s, 'A', i % 2 == 0))
            if i % 4 == 1:
                items.append((s, 'B', False))
            if i % 16 == 3:
                items.append((s, 'Z', i % 32 == 3))
        fams[name] = items
    # samples need renderable specs: wrap run_cases' sampling
    total, nontrivial = run(ck, fams)
    ck.bound('trees', f'{total} (tree, alias, expression|predicate) cases over the C09 families with alias-bearing atoms (@A.p, x < @A.x, @B.x = @A.x, domains @A.xs)')
    ck.bound('valuations', f'all; arrays and abstract range lists of length 0..{K}')
    ck.coverage['evaluations'] = total
    ck.coverage['distinct_nontrivial'] = nontrivial
    ck.coverage['rule'] = 'one case = real refactor_reference on one tree for one alias + one z3 query; non-trivial = alias occurs, definedness satisfiable, query unsat'
    ck.outside('aliases that coincide with a quantified variable name; arrays longer than K')
    return ck.finish()


def run(ck, fams):
    import time
    from vf import par
    stats = {}
    total = 0
    nontrivial = set()
    for fname, items in fams.items():
        t0 = time.time()
        results = [x for c in par.pmap_chunks(worker, items, 150) for x in c]
        st = {}
        for item, (status, sig, what, rep), secs in results:
            st[status] = st.get(status, 0) + 1
            total += 1
            if status in ('ok', 'vacuous'):
                ck.obligation(True)
                ck.query('unsat', rep or 0.0)
                if status == 'ok':
                    nontrivial.add(item)
            elif status == 'identity':
                ck.obligation(True)
            elif status == 'finding':
                ck.obligation(False)
                if sig.startswith('not-equivalent'):
                    ck.query('sat')
                ck.counterexample(sig, what, rep)
            elif status == 'unknown':
                ck.query('unknown')
                if 'random' in fname:
                    # seed-selected ADDITIONAL tree that the solver could not decide: excluded from the claim, listed in the evidence
                    ck.coverage.setdefault('undecided_seeded_trees', []).append(str(what)[:200])
                else:
                    ck.obligation(None)
                    ck.undecided(what)
        st['wall_s'] = round(time.time() - t0, 1)
        stats[fname] = st
        if items:
            s, a, p = items[len(items) // 2]
            ck.sample({'family': fname, 'tree': gen.render(s), 'alias': a, 'as_predicate': p})
    ck.engine('EQ', families=stats, cases=total, array_slots_K=K)
    return total, len(nontrivial)


def replay(data) -> int:
    from hpl.ast.predicates import HplPredicateExpression
    from hpl.rewrite import refactor_reference
    ast = HplPredicateExpression(gen.build(rw.tuplify(data['spec'])))
    print('input :', ast, 'alias', data['alias'])
    try:
        a, b = refactor_reference(ast if data.get('as_predicate') else ast.condition, data['alias'])
        print('output:', a, '|', b)
    except Exception as e:
        print('raised:', type(e).__name__, e)
    print('recorded:', data.get('what'))
    return 1
