"""C14 Rewriting functions are total on valid inputs."""
from __future__ import annotations

import os
import time
from typing import Any, Dict, List

from vf import eq, families, gen, par, rw, sem, sx
from vf.common import Check, short

K = 2
OPS = ('simplify', 'split_and', 'refactor', 'this2var', 'var2this')


def _ref_groups_compatible(g) -> bool:
    """after a replacement: do all occurrences of the same printed reference still share a possible type?"""
    from hpl.types import DataType
    table: Dict[str, Any] = {}
    for n in sem.walk_nodes(g):
        if sem.kind(n) in ('HplFieldAccess', 'HplArrayAccess', 'HplVarReference'):
            key = str(n)
            table[key] = (table[key] & n.data_type) if key in table else n.data_type
    return all(bool(m) for m in table.values())


def case(item) -> tuple:
    from hpl.ast.predicates import HplPredicate, HplPredicateExpression
    from hpl.ast.expressions import HplExpression
    from hpl.rewrite import refactor_reference, replace_this_with_var, replace_var_with_this, simplify, split_and
    from hpl.types import DataType
    spec, op, as_pred = item
    ast, note = rw.build_or_none(spec)
    if ast is None:
        if note != 'illtyped':
            return ('finding', f'construction:{note}@{gen.render(spec)}', f'building {gen.render(spec)} through the parser callbacks failed with {note}', {'kind': 'build', 'spec': spec})
        return ('illtyped', note, None, None)
    boolean = bool(ast.data_type & DataType.BOOL)
    nonbool_refactor = op == 'refactor' and not as_pred and not boolean  # "expression in, expressions out" holds for every expression
    if (as_pred or op in ('split_and', 'refactor')) and not nonbool_refactor and (not boolean or sem.kind(ast) == 'HplLiteral'):
        return ('illtyped', 'not boolean', None, None)
    if (as_pred or op in ('split_and', 'refactor')) and not nonbool_refactor:
        try:
            pred = HplPredicateExpression(ast)
        except TypeError:
            return ('illtyped', 'predicate', None, None)
        subject = pred if as_pred else pred.condition
        f = pred.condition
    else:
        subject = f = ast
    text = str(f)
    t_in = f.data_type
    rep = {'kind': op, 'spec': spec, 'as_predicate': as_pred, 'text': text}
    alias = 'A'
    try:
        if op == 'simplify':
            out = simplify(subject)
        elif op == 'split_and':
            out = split_and(subject)
        elif op == 'refactor':
            out = refactor_reference(subject, alias)
        elif op == 'this2var':
            out = replace_this_with_var(subject, alias)
        else:
            out = replace_var_with_this(subject, alias)
    except Exception as e:
        sig = f'{op}:{rw.exc_signature(e)}@{"pred" if as_pred else "expr"}@{text}'
        what = f'{op}({"{" + text + "}" if as_pred else text}) raised {type(e).__name__}: {short(e, 140)}'
        if op == 'simplify':
            ok = rw.allowed_simplify_failure(f)
            if ok:
                return ('allowed-exc', None, None, None)
            if ok is None:
                return ('unknown', None, f'cannot decide the licence for {what}', None)
        if op == 'split_and' and isinstance(e, ValueError) and str(e).startswith('unsatisfiable'):
            return ('allowed-exc', None, None, None)
        if op in ('this2var', 'var2this') and as_pred and isinstance(e, TypeError):
            # licence: the replacement makes two references of incompatible types coincide
            try:
                g = (replace_this_with_var if op == 'this2var' else replace_var_with_this)(gen.build(spec), alias)
                if not _ref_groups_compatible(g):
                    return ('allowed-exc', None, None, None)
            except TypeError:
                return ('allowed-exc', None, None, None)
            return ('finding', sig, what + ' although all coinciding references stay type-compatible', rep)
        return ('finding', sig, what, rep)
    # ---- documented kind of the result
    def is_expr(x):
        return isinstance(x, HplExpression)

    def is_pred(x):
        return isinstance(x, HplPredicate)

    bad = None
    if op == 'split_and':
        if not isinstance(out, list) or not all(is_expr(p) and p.data_type == DataType.BOOL for p in out):
            bad = f'expected a list of boolean expressions, got {[str(p) for p in out] if isinstance(out, list) else out!r}'
    elif op == 'refactor':
        if not isinstance(out, tuple) or len(out) != 2:
            bad = f'expected a pair, got {out!r}'
        elif as_pred and not all(is_pred(p) for p in out):
            bad = f'predicate in, but got ({out[0]!r}, {out[1]!r})'
        elif nonbool_refactor:
            if not all(is_expr(p) for p in out) or not any(p is f or p == f for p in out):
                bad = f'non-boolean expression in; expected the expression itself paired with True, got ({out[0]}, {out[1]})'
        elif not as_pred and not all(is_expr(p) and p.data_type == DataType.BOOL for p in out):
            bad = f'boolean expression in, but got ({out[0]} : {getattr(out[0], "data_type", None)!r}, {out[1]} : {getattr(out[1], "data_type", None)!r})'
    else:
        if as_pred and not is_pred(out):
            bad = f'predicate in, {out!r} out'
        elif not as_pred and not is_expr(out):
            bad = f'expression in, {out!r} out'
        elif not as_pred and op == 'simplify' and out.data_type != t_in:
            bad = f'type {t_in!r} in, {out.data_type!r} out ({out})'
        elif not as_pred and op != 'simplify' and not (out.data_type & t_in):
            bad = f'type {t_in!r} in, disjoint {out.data_type!r} out ({out})'
    if bad:
        return ('finding', f'{op}:wrong-kind@{"pred" if as_pred else "expr"}@{text}', f'{op}({text}): {bad}', rep)
    return ('ok', None, None, 0.0)


worker = rw.make_worker(case)

SX_PRE = '(-3 <= c0 <= 3 or c0 == 10) and (-3 <= c1 <= 3 or c1 == 10) and -3 <= c2 <= 3'


def sx_module(idx: List[int]):
    src = ['from vf.harness.c08_sx import body\n']
    for i in idx:
        for pre, twin in (('h', False), ('t', True)):
            src.append(f'''
def {pre}_{i:03d}(c0: int, c1: int, c2: int, x: int, y: int, p: bool) -> bool:
    """
    pre: {SX_PRE}
    post: _
    """
    return body({i}, c0, c1, c2, x, y, p, twin={twin}, totality=True) is None
''')
    return sx.write_module('c14_h', ''.join(src))


def run_sx(ck: Check):
    from vf.harness import c08_sx
    T = c08_sx.TEMPLATES
    if ck.tier == 'quick':
        idx = [i for i, (n, t) in enumerate(T) if 'range' in n or '{' in n or any(f in n for f in ('max', 'min', 'sum', 'prod', 'len', 'abs', 'int', 'ceil', 'floor', 'gcd', 'bool', ' in '))]
    else:
        idx = list(range(len(T)))
    path = sx_module(idx)
    t0 = time.time()
    res = sx.run(path, [f'h_{i:03d}' for i in idx], cond_timeout=120.0 if ck.tier == 'quick' else 300.0)
    tw = sx.run(path, [f't_{i:03d}' for i in idx], cond_timeout=30.0, per_batch=11)
    conf = cex = unk = 0
    for i in idx:
        name = T[i][0]
        r, t = res[f'h_{i:03d}'], tw[f't_{i:03d}']
        if r.status == 'confirmed' and t.status == 'counterexample':
            conf += 1
            ck.obligation(True)
            ck.query('unsat', r.secs)
        elif r.status == 'counterexample' and r.args is not None:
            cex += 1
            ck.obligation(False)
            ck.query('sat', r.secs)
            a, k = r.args
            try:
                got = c08_sx.body(i, *a, totality=True, **k)
            except Exception as e:
                got = ('exception-in-replay', name, type(e).__name__, short(e, 120))
            if got is None:
                ck.undecided(f'SX counterexample for "{name}" does not replay: {r.message[:200]}')
            else:
                ck.counterexample(f'sx:{got[0]}:{name}', f'simplify on template {name} with literals {a} {k}: {got}',
                                  {'kind': 'sx', 'template': i, 'name': name, 'args': a, 'kwargs': k, 'observed': [str(g) for g in got]})
        else:
            unk += 1
            ck.obligation(None)
            ck.query('unknown', r.secs)
            ck.undecided(f'SX template "{name}": {r.status} {r.message[:140]} / twin {t.status}')
    ck.engine('SX', harness_functions=len(idx), confirmed_over_all_paths=conf, counterexamples=cex, inconclusive=unk,
              wall_s=round(time.time() - t0, 1), literal_bound=SX_PRE)


def main() -> int:
    ck = Check('C14', 'other', 'every rewriting entry point executed on enumerated accepted ASTs (expression and predicate form); the licences to raise are '
               'decided by z3 (identically-zero divisor) and by an independent type-compatibility oracle; CrossHair executes simplify symbolically over '
               'literal values for the value-dependent crash sites')
    ck.functions('hpl.rewrite.simplify', 'hpl.rewrite.split_and', 'hpl.rewrite.refactor_reference', 'hpl.rewrite.replace_this_with_var',
                 'hpl.rewrite.replace_var_with_this', 'hpl.rewrite.canonical_form', 'hpl.ast.base.HplAstObject.but')
    base: Dict[str, List[Any]] = {}
    sf = families.simplify_families(ck.tier)
    bf = families.boolean_families(ck.tier, alias_heavy=True)
    step = 1 if ck.tier == 'thorough' else 4
    for k, v in sf.items():
        base['S:' + k] = v if k in ('calls', 'aggregates', 'inclusion', 'quantifiers', 'strings') else v[::step]
    for k, v in bf.items():
        base['B:' + k] = v[::step]
    base['slots'] = families.slot_family()
    base['numeric-roots'] = families.numeric_roots()
    base['call-shapes'] = families.call_shapes()
    n_rand = 2000 if ck.tier == 'quick' else 30000
    base['random(seed)'] = families.uniq(families.random_specs(ck.seed + 14, n_rand, 4 if ck.tier == 'quick' else 5))
    fams = {}
    for name, specs in base.items():
        items = []
        for i, s in enumerate(specs):
            for op in OPS:
                items.append((s, op, False))
                if op in ('simplify', 'this2var', 'var2this', 'refactor'):
                    items.append((s, op, True))
        fams[name] = items
    from vf.checks.c13 import run_items
    import vf.checks.c13 as c13
    c13.worker = worker  # reuse the tallying driver with this module's worker
    total, nontrivial = run_items(ck, fams, count_queries=False, label='API-totality')
    # property-level totality of canonical_form
    from vf.checks import c11
    n_props, n_bad = c11.totality_only(ck)
    ck.bound('cases', f'{total} (tree, function, expression|predicate) cases + {n_props} properties through canonical_form')
    ck.coverage['evaluations'] = total + n_props
    ck.coverage['distinct_nontrivial'] = nontrivial
    ck.coverage['rule'] = 'one case = one real API call on one accepted AST; non-trivial = the call returned (no licence to raise was used) and the result kind was checked'
    if os.environ.get('VERIF_NO_SX') != '1':
        run_sx(ck)
    ck.outside('aliases captured by a quantifier; depth beyond the families')
    return ck.finish()


def replay(data) -> int:
    print('recorded:', data.get('what'))
    if data.get('kind') in OPS:
        print('re-run  :', case((rw.tuplify(data['spec']), data['kind'], data.get('as_predicate', False)))[:3])
    return 1
