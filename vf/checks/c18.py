"""C18 A specification file is exactly its sequence of annotated properties.

  GX  the live rule set with start hpl_file vs the reference FILE grammar, with every property wrapped in explicit OPENP/CLOSEP
      brackets: same language and same SEGMENTATION into properties (annotations inside the bracket of the property that follows)
      for all bracketed token strings up to the bound (properties opaque below the pattern level is not needed: tokens are cheap)
  SP  the real metadata / hpl_property / hpl_file callbacks on SYMBOLIC annotation keys: a syntax error iff a key repeats; each
      property's metadata is exactly its own dict
  end-to-end  files of 1..6 properties from a pool (valid, or exactly one invalid member) with every subset/order of annotations and
      arbitrary separators: the file parses to the list of the individual parses, or fails with the offending member's error class
"""
from __future__ import annotations

import itertools
import random
import time
from typing import Any, Dict, List, Optional, Tuple

import z3

from vf import gx, par, refgrammar, sf, sp
from vf.checks import c01
from vf.common import Check, short


def bracket_properties(cfg: gx.Cfg, prop_symbol: str) -> gx.Cfg:
    rules = []
    for l, rhs in cfg.rules:
        if l == prop_symbol:
            rules.append((l, ('OPENP',) + rhs + ('CLOSEP',)))
        else:
            rules.append((l, rhs))
    return gx.Cfg(cfg.start, rules, cfg.terminals | {'OPENP', 'CLOSEP'})


def gx_part(ck: Check, N: int):
    from hpl.parser import HplParser
    parser = HplParser.specification_parser()
    live0 = gx.Cfg.from_lark(parser._lark, 'hpl_file')
    ref0 = refgrammar.reference('file')
    live = bracket_properties(live0, 'hpl_property')
    ref = bracket_properties(ref0, 'PROPERTY')
    t0 = time.time()
    for n in range(1, N + 1):
        v, names, side, dt = gx.compare(live, ref, n)
        ck.query(v, dt)
        if v == 'unsat':
            ck.obligation(True)
            continue
        if v == 'unknown':
            ck.obligation(None)
            ck.undecided(f'GX file segmentation n={n}: z3 unknown')
            break
        plain = [x for x in names if x not in ('OPENP', 'CLOSEP')]
        text = c01.render_tokens(plain)
        ck.obligation(False)
        acc = c01.syntactically_accepted(parser, text)
        ck.counterexample('file-segmentation', f'for tokens {plain} the live file grammar and the documented one disagree on acceptance or on where properties begin/end '
                          f'(bracketed {" ".join(names)} derivable only in the {side} grammar); the real parser {"accepts" if acc else "rejects"} «{text}»', {'kind': 'gx', 'text': text, 'tokens': names})
        break
    # a file is accepted iff it is a concatenation of accepted properties: FILE -> PROPERTY+ in the live rule set (structural)
    pl = gx.Cfg.from_lark(HplParser.property_parser()._lark, 'hpl_property')
    if {(l, r) for l, r in pl.rules if l != 'hpl_file' and not str(l).startswith('_list_of')} - set(live0.rules):
        ck.counterexample('property-rules-differ-between-entry-points', 'the rules reachable from hpl_property differ between the property parser and the file parser', {'kind': 'rules'})
    ck.engine('GX', bound_tokens=N, wall_s=round(time.time() - t0, 1))


def sp_part(ck: Check):
    """metadata callback with symbolic keys"""
    from hpl.errors import HplSyntaxError
    from hpl.parser import PropertyTransformer
    T = PropertyTransformer()
    total = 0
    for n in (1, 2, 3, 4):
        keys = [sp.SymName(z3.Int(f'k{i}'), f'k{i}') for i in range(n)]
        ids = [sp._const_id(x) for x in ('id', 'title', 'description')]
        pre = [z3.Or(*[k.t == i for i in ids]) for k in keys]
        const = {x: sp.SymName(z3.IntVal(sp._const_id(x)), x) for x in ('id', 'title', 'description')}

        def fn():
            items = [(k, f'v{i}') for i, k in enumerate(keys)]
            dup = any(keys[i] == keys[j] for i in range(n) for j in range(i + 1, n))
            try:
                md = T.metadata(list(items))
            except HplSyntaxError:
                return ('syntax-error', dup, None)
            ok = len(md) == n and all(md[k] == v for k, v in items)
            return ('dict', dup, ok)

        paths, ctx = sf.explore(fn, 0, pre)
        total += len(paths)
        ck.query('unsat', ctx.solver_s, ctx.queries)
        good = True
        for pc, (kind, val) in paths:
            m = sp.model_of(z3.And(pc, *pre))
            conc = sp.concretise(m, keys)
            ks = [conc[f'k{i}'] for i in range(n)]
            # concrete re-run with real strings
            try:
                T.metadata([(k, f'v{i}') for i, k in enumerate(ks)])
                creal = 'dict'
            except HplSyntaxError:
                creal = 'syntax-error'
            except Exception as e:
                creal = type(e).__name__
            if kind == 'raise' and creal == val:
                good = False
                ck.counterexample(f'metadata-callback-raises:{val}', f'metadata({ks}) raises {val} (an internal error, not a syntax error)', {'kind': 'metadata', 'keys': ks})
                continue
            if kind == 'raise' or val[0] != creal:
                ck.undecided(f'metadata callback: symbolic path {kind} {val} vs concrete {creal} for keys {ks}')
                good = False
                continue
            want = 'syntax-error' if len(set(ks)) != len(ks) else 'dict'
            if creal == 'dict' and want == 'syntax-error':
                # the statement is about FILES: a tree may detect duplicates elsewhere than in this callback. Replay through the real parsers.
                from hpl.parser import property_parser, specification_parser
                text = ''.join(f'# {k}: ' + ('p1' if k == 'id' else '"v"') + '\n' for k in ks) + 'globally: no a'
                outcomes = []
                for mk in (property_parser, specification_parser):
                    try:
                        mk().parse(text)
                        outcomes.append('accepted')
                    except HplSyntaxError:
                        outcomes.append('HplSyntaxError')
                    except Exception as e:
                        outcomes.append(type(e).__name__)
                if outcomes == ['HplSyntaxError', 'HplSyntaxError']:
                    ck.engine('SP', duplicate_detection_outside_metadata_callback=True)
                    ck.assume('duplicate annotation keys are detected outside PropertyTransformer.metadata in this tree: decided by the end-to-end files (every file also through long-lived parser objects)')
                    continue
                good = False
                ck.counterexample(f'metadata-duplicates:{creal}', f'metadata({ks}) -> dict and the parsers answer {outcomes} on «{text}», expected a syntax error', {'kind': 'metadata', 'keys': ks})
                continue
            if creal != want or (val[0] == 'dict' and not val[2]):
                good = False
                ck.counterexample(f'metadata-duplicates:{creal}', f'metadata({ks}) -> {creal}, expected {want}', {'kind': 'metadata', 'keys': ks})
        ck.obligation(good)
    # hpl_property: metadata attached is a copy of its own dict; None -> empty
    from vf import props
    spec = {'scope': 'globally', 'pattern': 'absence', 'activator': None, 'terminator': None, 'trigger': None, 'behaviour': ('ev', 'a', None, None), 'max_time': None, 'meta': None}
    md = {'id': 'p1'}
    p1 = T.hpl_property(md, props.build_scope(spec), props.build_pattern(spec))
    p2 = T.hpl_property(None, props.build_scope(spec), props.build_pattern(spec))
    ok = p1.metadata == {'id': 'p1'} and p2.metadata == {} and p1.metadata is not p2.metadata and p1.uid == 'p1' and p2.uid is None
    f = T.hpl_file([p1, p2])
    ok = ok and tuple(f.properties) == (p1, p2) and f.properties[0] is p1 and f.properties[1] is p2
    ck.obligation(ok)
    if not ok:
        ck.counterexample('property-metadata-attachment', f'hpl_property/hpl_file callbacks: metadata {p1.metadata} / {p2.metadata}, properties {f.properties}', {'kind': 'callbacks'})
    ck.engine('SP', metadata_key_paths=total)


POOL_VALID = ['globally: no a', 'globally: some b {x > 1} within 100 ms', 'after a as A until (b or c): d {y < @A.y} causes e within 2 s', 'until q: x1 requires y1',
              'after (p0 or p1): s forbids t {forall v in xs: @v != 0}', 'globally: no (m or n {not p})',
              # characters that str.splitlines()/str.split() treat as separators are ordinary characters inside HPL strings
              'globally: no a {s = "core\x0cdump" or s = "x\u2028y"}', 'globally: some b {s != "a\x0bb\x1cc\x85d\re"}']
POOL_INVALID = [('globally: no', 'HplSyntaxError'), ('globally no a', 'HplSyntaxError'), ('globally: some b {x + 1}', 'TypeError'), ('after a as A: some b as A', 'HplSanityError'),
                ('globally: no a {@Z.x > 1}', 'HplSanityError'), ('globally: no (a or a)', 'HplSanityError'), ('globally: some b {foo(x) > 1}', 'ValueError'),
                ('# id: a\n# id: b\nglobally: no a', 'HplSyntaxError'), ('# colour: "red"\nglobally: no a', 'HplSyntaxError'), ('# title: unquoted\nglobally: no a', 'HplSyntaxError'),
                # not whitespace for HPL (only space, tab, form feed, CR, LF are)
                ('globally: no a \x0b', 'HplSyntaxError'), ('\x1cglobally: no a', 'HplSyntaxError'), ('globally: no a\u2028', 'HplSyntaxError'), ('globally:\x85no a', 'HplSyntaxError')]
ANNOT = [('id', 'p{}'), ('title', '"Title {}"'), ('description', '"some text # with a hash {}"')]
ANNOT_EXOTIC = {'title': '"Ti\x0ctle\u2028 {}"', 'description': '"line\x0b one\x1c\x85 # {}\r"'}
SEPS = ['\n', '\n\n', ' ', '\n  \t\n', '\r\n', '\x0c', '\r', ' \x0c\n']


def annotate(text: str, keys: Tuple[str, ...], i: int) -> Tuple[str, Dict[str, str]]:
    head = ''
    md = {}
    for k in keys:
        v = (ANNOT_EXOTIC[k] if (i % 3 == 2 and k in ANNOT_EXOTIC) else dict(ANNOT)[k]).format(i)
        head += f'# {k}: {v}\n'
        md[k] = v
    return head + text, md


_LONG_LIVED = {}


def file_case(item):
    from hpl.parser import HplParser
    members, seps = item
    fp = HplParser.specification_parser()
    pp = HplParser.property_parser()
    text = ''
    for k, (t, _md, _err) in enumerate(members):
        text += (seps[k % len(seps)] if k else '') + t
    # statelessness across files: one parser object per worker process sees every file of its chunks (valid and failing ones) and must
    # answer exactly like a fresh parser
    if not _LONG_LIVED:
        _LONG_LIVED['file'] = HplParser.specification_parser()
        _LONG_LIVED['prop'] = HplParser.property_parser()

    def outcome_of(parser, t):
        try:
            r = parser.parse(t)
            return ('ok', r, [p.metadata for p in r.properties] if hasattr(r, 'properties') else r.metadata)
        except Exception as e:
            return ('err', type(e).__name__, None)
    for which, fresh, t in [('file', fp, text)] + [('prop', pp, m[0]) for m in members[:2]]:
        a, b = outcome_of(_LONG_LIVED[which], t), outcome_of(fresh, t)
        if a != b:
            return ('parser-keeps-state', f'a parser object that has parsed other texts before answers {a[0]} {a[1] if a[0] == "err" else ""}, a fresh one {b[0]} {b[1] if b[0] == "err" else ""}', t)
    singles = []
    first_err = None
    for t, md, err in members:
        try:
            singles.append(pp.parse(t))
        except Exception as e:
            singles.append(None)
            if first_err is None:
                first_err = type(e).__name__
    # the module-level entry points must agree with the parser objects (same ASTs / same error class)
    from hpl.parser import parse_property, parse_specification
    def outcome(f, t):
        try:
            return ('ok', f(t))
        except Exception as e:
            return ('err', type(e).__name__)
    entry = len(text) % 3 == 0 or any(ord(ch) > 126 or ch in '\x0b\x0c\x1c\r' for ch in text)   # each call of an entry point builds a parser (slow): a third of the files + all exotic ones
    a, b = (outcome(parse_specification, text), outcome(fp.parse, text)) if entry else (('ok', None), ('ok', None))
    if not entry:
        pass
    elif a[0] != b[0] or (a[0] == 'err' and a[1] != b[1]) or (a[0] == 'ok' and (a[1] != b[1] or [p.metadata for p in a[1].properties] != [p.metadata for p in b[1].properties])):
        return ('entry-point-differs', f'parse_specification(text) gives {a[0]} {a[1] if a[0] == "err" else ""} but specification_parser().parse(text) gives {b[0]} {b[1] if b[0] == "err" else ""}', text)
    for t, _md, _err in (members[:1] if entry else []):
        a, b = outcome(parse_property, t), outcome(pp.parse, t)
        if a[0] != b[0] or (a[0] == 'err' and a[1] != b[1]) or (a[0] == 'ok' and (a[1] != b[1] or a[1].metadata != b[1].metadata)):
            return ('entry-point-differs', f'parse_property and property_parser().parse disagree on a member', t)
    try:
        spec = fp.parse(text)
    except Exception as e:
        got = type(e).__name__
        if first_err is None:
            return ('file-rejected', f'file of valid properties rejected with {got}: {short(e, 100)}', text)
        if got != first_err:
            return ('wrong-error-class', f'file fails with {got}, its offending member alone fails with {first_err}', text)
        return None
    if first_err is not None:
        return ('file-accepted-with-invalid-member', f'file accepted although a member fails with {first_err}', text)
    props_ = list(spec.properties)
    if len(props_) != len(singles):
        return ('wrong-count', f'{len(props_)} properties parsed from a file of {len(singles)}', text)
    for k, (p, s, (t, md, _)) in enumerate(zip(props_, singles, members)):
        if p != s:
            return ('member-differs', f'property {k} of the file differs from its stand-alone parse', text)
        if p.metadata != md or s.metadata != md:
            return ('metadata-differs', f'property {k} carries {p.metadata}, expected exactly {md}', text)
        for j, q in enumerate(props_):
            if j != k and q.metadata is p.metadata:
                return ('metadata-shared', f'properties {k} and {j} share one metadata dict', text)
    return None


def worker(chunk):
    out = []
    for item in chunk:
        try:
            out.append(file_case(item))
        except Exception as e:
            out.append(('harness', f'{type(e).__name__}: {short(e, 200)}', ''))
    return out


def main() -> int:
    ck = Check('C18', 'other', 'GX: CYK-in-z3 over the live file rule set vs the reference with explicit property brackets (language and segmentation, all bracketed token strings up to the bound); '
               'SP: the real metadata callback on symbolic annotation keys; end-to-end comparison of file parses with stand-alone parses over generated files')
    ck.functions('hpl.grammar.HPL_GRAMMAR rules hpl_file/_list_of_properties/hpl_property/metadata (via Lark.rules)', 'hpl.parser.PropertyTransformer.metadata/metadata_id/metadata_title/metadata_desc/hpl_property/hpl_file',
                 'hpl.ast.specs.HplSpecification', 'hpl.ast.properties.HplProperty.uid')
    gx_part(ck, 14 if ck.tier == 'quick' else 18)
    sp_part(ck)
    rnd = random.Random(ck.seed + 18)
    items = []
    subsets = [()] + [p for r in (1, 2, 3) for p in itertools.permutations(('id', 'title', 'description'), r)]
    nfiles = 1500 if ck.tier == 'quick' else 12000
    for f in range(nfiles):
        k = 1 + f % 6
        members = []
        bad_at = rnd.randrange(k) if f % 3 == 0 else None
        for i in range(k):
            if i == bad_at:
                t, err = POOL_INVALID[(f // 3 + i) % len(POOL_INVALID)]
                if t.startswith('#'):
                    members.append((t, {}, err))
                else:
                    tt, md = annotate(t, subsets[(f + i) % len(subsets)], i)
                    members.append((tt, md, err))
            else:
                t = POOL_VALID[(f + 2 * i) % len(POOL_VALID)]
                tt, md = annotate(t, subsets[(f * 7 + i) % len(subsets)], i)
                members.append((tt, md, None))
        seps = [SEPS[(f + j) % len(SEPS)] for j in range(3)]
        items.append((members, seps))
    t0 = time.time()
    results = [x for c in par.pmap_chunks(worker, items, 60) for x in c]
    for r in results:
        if r is None:
            continue
        if r[0] == 'harness':
            ck.undecided(r[1])
        else:
            ck.counterexample(f'{r[0]}@{short(r[2], 120)}', r[1] + f' — file «{short(r[2], 200)}»', {'kind': 'file', 'text': r[2]})
    ck.obligation(all(r is None for r in results))
    # the empty file and whitespace-only files are rejected with a syntax error
    from hpl.errors import HplSyntaxError
    from hpl.parser import HplParser
    fp = HplParser.specification_parser()
    for t in ('', ' \n\t', '# id: x', '# id: x\n'):
        try:
            fp.parse(t)
            ck.counterexample(f'empty-file-accepted@{t!r}', f'file {t!r} accepted', {'kind': 'file', 'text': t})
        except HplSyntaxError:
            pass
        except Exception as e:
            ck.counterexample(f'empty-file-wrong-error:{type(e).__name__}', f'file {t!r} raises {type(e).__name__}', {'kind': 'file', 'text': t})
    ck.engine('end-to-end', files=len(items), wall_s=round(time.time() - t0, 1))
    ck.sample({'file': items[7][0][0][0] + ' ...', 'members': len(items[7][0])})
    ck.bound('GX', 'all bracketed token strings up to the bound (files of up to ~3 short properties)')
    ck.bound('SP', 'annotation key sequences of length 1..4 over {id, title, description}, keys symbolic')
    ck.bound('end-to-end', f'{len(items)} files of 1..6 members from 8 valid and 14 invalid properties (each error class), 16 annotation subsets/orders (strings with form feed, VT, FS, NEL, U+2028, CR inside), 8 whitespace separators; every file through both parse_specification() and specification_parser().parse()')
    ck.coverage['evaluations'] = len(items)
    ck.coverage['distinct_nontrivial'] = len({''.join(m[0] for m in it[0]) for it in items})
    ck.coverage['rule'] = 'one evaluation = one generated file parsed as a file and member by member; distinct = distinct member sequence'
    ck.outside('more than 6 properties per file; annotation values with escapes')
    return ck.finish()


def replay(data) -> int:
    print('recorded:', data.get('what'))
    if 'text' in data:
        from hpl.parser import HplParser
        try:
            s = HplParser.specification_parser().parse(data['text'])
            print('file parse:', [(str(p), p.metadata) for p in s.properties])
        except Exception as e:
            print('file parse:', type(e).__name__, str(e).splitlines()[0][:100])
    return 1
