"""C08 simplify preserves meaning.

EQ: the real hpl.rewrite.simplify runs on every tree of the enumerated families; z3 decides, for ALL valuations
(unbounded reals, strings, arrays up to K elements), that input and output have the same value wherever the input
is defined. SX: CrossHair executes the real simplify symbolically on templates whose literal VALUES and valuation
are solver variables, so the value-dependent branches (== 0, == 1, == -1, a < b, folding) are covered for every
literal in the bound.
"""
from __future__ import annotations

import os
import time
from typing import Any, Dict, List

from vf import eq, families, gen, par, rw, sem, sx
from vf.common import Check, Inconclusive, short

K = 2


def tuplify(x):
    return tuple(tuplify(i) for i in x) if isinstance(x, (list, tuple)) else x


def case(spec) -> tuple:
    from hpl.ast.predicates import HplPredicateExpression
    from hpl.rewrite import simplify
    ast, note = rw.build_or_none(spec)
    if ast is None:
        return ('illtyped' if note == 'illtyped' else 'buildexc', note, None, None)
    text = str(ast)
    t_in = ast.data_type
    try:
        out = simplify(ast)
    except Exception as e:
        ok = rw.allowed_simplify_failure(ast)
        if ok:
            return ('allowed-exc', None, None, None)
        if ok is None:
            return ('unknown', None, f'cannot decide whether a divisor of {text} is identically zero', None)
        sig = f'{rw.exc_signature(e)}@{text}'
        return ('finding', sig, f'simplify({text}) raised {type(e).__name__}: {short(e, 120)} but no divisor is identically zero and no constant subexpression is undefined',
                {'kind': 'simplify', 'spec': spec, 'text': text, 'observed': f'{type(e).__name__}'})
    rep = {'kind': 'simplify', 'spec': spec, 'text': text, 'output': str(out)}
    if out.data_type != t_in:
        return ('finding', f'type-changed@{text}', f'simplify({text}) = {out} has type {out.data_type!r}, input had {t_in!r}', rep)
    bad = rw.check_valid(out)
    if bad:
        return ('finding', f'invalid-output@{text}', f'simplify({text}) = {out} is not a valid AST: {bad}', rep)
    if out == ast:
        r = eq.EqResult()
        r.verdict, r.reach = 'identity', True
    else:
        r = eq.equivalent(ast, [out], K=K)
    if r.verdict == 'sat':
        rep.update({'valuation': r.valuation, 'value_in': repr(r.vin), 'value_out': repr(r.vout)})
        if duplicate_set_aggregate(ast):
            return ('finding', 'not-equivalent:aggregate-over-set-with-duplicate-elements',
                    f'simplify({text}) = {out}; at {r.valuation} input is {r.vin[1]!r} (also under the deduplicated reading), output is {r.vout}', rep)
        return ('finding', f'not-equivalent@{text}', f'simplify({text}) = {out}; at {r.valuation} input is {r.vin[1]!r}, output is {r.vout}', rep)
    if r.verdict == 'rounding':
        return ('allowed-exc', None, None, None)  # IEEE rounding of folded constants: stated as outside the claim
    if r.verdict not in ('unsat', 'identity'):
        if duplicate_set_aggregate(ast):
            return ('allowed-exc', None, None, None)  # member of the recorded defect class; this instance is not decided (irrational / uninterpreted model)
        return ('unknown', None, f'{text} => {out}: {r.verdict} {r.note}', None)
    # predicate wrapper: vacuous truth / contradiction exactly when the condition simplifies to True / False
    if t_in.name == 'BOOL' and sem.kind(ast) != 'HplLiteral':
        try:
            pred = HplPredicateExpression(gen.build(spec))
            sp = simplify(pred)
            lit = sem.kind(out) == 'HplLiteral' and isinstance(out.value, bool)
            if sp.is_vacuous != lit or (lit and sp.is_true != out.value) or (not lit and sp.condition != out):
                return ('finding', f'predicate-wrapping@{text}', f'simplify({{{text}}}) = {sp} but the condition simplifies to {out}', rep)
        except Exception as e:
            return ('finding', f'predicate-{rw.exc_signature(e)}@{text}', f'simplify on predicate {{{text}}} raised {type(e).__name__}: {short(e, 100)}', rep)
    if len(text) % 3 == 0:
        h = rw.history_dependence(simplify, gen.build(spec), holds=lambda d, o: (o.data_type == d.data_type and eq.equivalent(d, [o], K=K).verdict != 'sat'))
        if h:
            return ('finding', f'history@{text}', f'simplify depends on earlier calls: {h}', rep)
    if r.verdict == 'identity':
        return ('identity', None, None, 0.0)
    return ('ok' if r.reach else 'vacuous', None, None, r.secs)


def duplicate_set_aggregate(e) -> bool:
    """len/sum/prod applied to an enumerated set that lists the same element expression more than once"""
    for n in sem.walk_nodes(e):
        if sem.kind(n) == 'HplFunctionCall' and n.function.name in ('len', 'sum', 'prod') and n.arguments and sem.kind(n.arguments[0]) == 'HplSet':
            vals = [str(v) for v in n.arguments[0].values]
            if len(set(vals)) != len(vals):
                return True
            # ... or elements that only become the same expression once each is simplified (z / z and 1)
            try:
                from hpl.rewrite import simplify
                vals = [str(simplify(rw.rebuild(v))) for v in n.arguments[0].values]
                if len(set(vals)) != len(vals):
                    return True
            except Exception:
                pass
    return False


def worker(chunk):
    out = []
    for spec in chunk:
        t = time.time()
        try:
            res = case(spec)
        except Exception as e:  # harness trouble: inconclusive, never a verdict
            res = ('unknown', None, f'harness exception on {spec}: {type(e).__name__}: {short(e, 150)}', None)
        out.append((spec, res, time.time() - t))
    return out


SX_PRE = {
    'quick': '-2 <= c0 <= 2 and -2 <= c1 <= 2 and -2 <= c2 <= 2',
    'thorough': '(-3 <= c0 <= 3 or c0 == 10) and (-3 <= c1 <= 3 or c1 == 10) and -3 <= c2 <= 3',
}


def sx_module(tier: str, with_twins: bool = True):
    from vf.harness import c08_sx
    src = ['from vf.harness.c08_sx import body\n']
    for i, (name, t) in enumerate(c08_sx.TEMPLATES):
        src.append(f'''
def h_{i:03d}(c0: int, c1: int, c2: int, x: int, y: int, p: bool) -> bool:
    """
    pre: {SX_PRE[tier]}
    post: _
    """
    return body({i}, c0, c1, c2, x, y, p) is None
''')
        if with_twins:
            src.append(f'''
def t_{i:03d}(c0: int, c1: int, c2: int, x: int, y: int, p: bool) -> bool:
    """
    pre: {SX_PRE[tier]}
    post: _
    """
    return body({i}, c0, c1, c2, x, y, p, twin=True) is None
''')
    return sx.write_module('c08_h', ''.join(src))


def _sx_duplicate_class(i, a, k) -> bool:
    from vf.harness import c08_sx
    import inspect
    names = list(inspect.signature(c08_sx.body).parameters)[1:]
    vals = dict(zip(names, a))
    vals.update(k)
    try:
        spec = c08_sx.subst(c08_sx.TEMPLATES[i][1], (vals.get('c0', 0), vals.get('c1', 0), vals.get('c2', 0)))
        return duplicate_set_aggregate(gen.build(spec))
    except Exception:
        return False


def run_sx(ck: Check, tier: str, pid: str = 'C08'):
    from vf.harness import c08_sx
    T = c08_sx.TEMPLATES
    path = sx_module(tier)
    names = [f'h_{i:03d}' for i in range(len(T))]
    twins = [f't_{i:03d}' for i in range(len(T))]
    t0 = time.time()
    res = sx.run(path, names, cond_timeout=150.0 if tier == 'quick' else 400.0)
    tw = sx.run(path, twins, cond_timeout=30.0, per_batch=11)
    conf = cex = unk = 0
    cpu = 0.0
    for i, (name, tmpl) in enumerate(T):
        r = res[f'h_{i:03d}']
        t = tw[f't_{i:03d}']
        cpu += r.secs + t.secs
        reach = t.status == 'counterexample'
        if r.status == 'confirmed' and reach:
            conf += 1
            ck.obligation(True)
            ck.query('unsat', r.secs)
        elif r.status == 'counterexample' and r.args is not None:
            cex += 1
            ck.obligation(False)
            ck.query('sat', r.secs)
            a, k = r.args
            try:
                got = c08_sx.body(i, *a, **k)  # plain-Python replay on the real code
            except Exception as e:
                got = ('exception-in-replay', name, type(e).__name__, short(e, 120))
            if got is None:
                ck.undecided(f'SX counterexample for template "{name}" does not replay in plain Python: {r.message[:200]}')
            elif got[0] == 'different' and _sx_duplicate_class(i, a, k):
                ck.counterexample('not-equivalent:aggregate-over-set-with-duplicate-elements', f'template {name} with literals/valuation {a} {k}: {got} (different under both readings of the set)',
                                  {'kind': 'sx', 'template': i, 'name': name, 'args': a, 'kwargs': k, 'observed': [str(g) for g in got]})
            else:
                ck.counterexample(f'sx:{got[0]}:{name}', f'template {name} with literals/valuation {a} {k}: {got}',
                                  {'kind': 'sx', 'template': i, 'name': name, 'args': a, 'kwargs': k, 'observed': [str(g) for g in got]})
        else:
            unk += 1
            ck.obligation(None)
            ck.query('unknown', r.secs)
            why = r.message[:160] if r.status != 'confirmed' else f'reachability twin not violated ({t.status}: {t.message[:100]})'
            ck.undecided(f'SX template "{name}": {why}')
    ck.engine('SX', harness_functions=len(T), confirmed_over_all_paths=conf, counterexamples=cex, inconclusive=unk,
              reachability_twins_violated=sum(1 for t in tw.values() if t.status == 'counterexample'),
              cpu_s=round(cpu, 1), wall_s=round(time.time() - t0, 1), literal_bound=SX_PRE[tier],
              valuation='x, y: unbounded int; p: bool')
    ck.sample({'sx_templates': [T[i][0] for i in range(0, len(T), max(1, len(T) // 12))]})


def run_eq(ck: Check, fams: Dict[str, List[Any]], label='EQ'):
    return rw.run_cases(ck, fams, worker, label, K)


def main() -> int:
    ck = Check('C08', 'other', 'real simplify executed concretely on enumerated trees, input/output equivalence decided by z3 for all valuations (EQ); '
               'real simplify executed symbolically by CrossHair with symbolic literal values and valuation (SX)')
    ck.functions('hpl.rewrite.simplify', 'hpl.rewrite._simplify*', 'hpl.rewrite._pre_simplify_binop', 'hpl.rewrite._obviously_different',
                 'hpl.rewrite._obvious_negatives', 'hpl.rewrite._simplify_function_*', 'hpl.parser.PropertyTransformer (AST construction callbacks)')
    fams = families.simplify_families(ck.tier)
    n_rand = 3000 if ck.tier == 'quick' else 40000
    fams['random-depth<=4(seed)'] = families.uniq(families.random_specs(ck.seed, n_rand, 4 if ck.tier == 'quick' else 5))
    total, nontrivial = run_eq(ck, fams)
    ck.bound('EQ trees', f'{total} trees: exhaustive small-scope families (depth <= 2-3, literals from {{0,1,-1,2,10,1.5}}) + {n_rand} seeded random trees of depth <= {4 if ck.tier == "quick" else 5}')
    ck.bound('EQ valuations', f'all: numbers are unbounded reals, strings unbounded, arrays/abstract range lists of length <= {K}')
    ck.coverage['evaluations'] = total
    ck.coverage['distinct_nontrivial'] = nontrivial
    ck.coverage['rule'] = 'one evaluation = one tree through real simplify + one z3 equivalence query; non-trivial = distinct tree whose input is defined on some valuation and whose query was decided unsat'
    if os.environ.get('VERIF_NO_SX') != '1':
        run_sx(ck, ck.tier)
        ck.bound('SX', f'{SX_PRE[ck.tier]}; templates of depth <= 3 over + - *, comparisons, logic, sets, ranges, max/min/sum/prod/len/abs/int/ceil/floor/gcd')
    ck.outside('NaN/inf valuations and IEEE rounding of folded constants (constant subtrees are evaluated with Python arithmetic on both sides)')
    ck.outside('symbolic literals under / and ** (CrossHair leaves its decidable fragment; covered with concrete literals by EQ)')
    ck.outside('trees deeper than the stated bounds; arrays longer than K')
    ck.assume('aggregates over sets are only claimed when the listed elements are pairwise different (set and list readings agree)')
    ck.assume('contents of a range are claimed for integer literal bounds lo <= hi only; other ranges are an abstract finite list within the bounds')
    ck.assume('sqrt/log/trigonometry/gcd/str are uninterpreted (equal arguments give equal results); constant arguments use Python math')
    return ck.finish()


def replay(data) -> int:
    from hpl.rewrite import simplify
    if data.get('kind') == 'simplify':
        ast = gen.build(tuplify(data['spec']))
        print('input :', ast)
        try:
            print('output:', simplify(ast))
        except Exception as e:
            print('raised:', type(e).__name__, e)
        print('recorded:', data.get('what'))
    elif data.get('kind') == 'sx':
        from vf.harness import c08_sx
        print('template:', data['name'], 'args:', data['args'], data['kwargs'])
        print('observed:', c08_sx.body(data['template'], *data['args'], **data['kwargs']))
    return 1
