"""C19 The command-line tool's exit status and JSON output are faithful.

  FP   hpl.cli._ast_object_serializer is translated from its current source into z3 Float64 terms: for ALL doubles it returns null exactly
       for the non-finite ones and the value itself otherwise (this is what makes the JSON strictly valid)
  runs the real hpl.cli.main(argv) in-process (stdout/stderr captured) on generated property texts and specification files, valid and
       invalid of each error class, with and without -p and -o json; a subset also through `python -m hpl` as a subprocess. The JSON
       document is parsed strictly (NaN/Infinity rejected) and compared with an independent field-by-field serialisation of the AST.
The solver decides the serializer obligation; the rest is concrete execution of the CLI over the stated pool (weakest use of the
technique in this suite, as anticipated in DESIGN.md).
"""
from __future__ import annotations

import contextlib
import io
import json
import math
import os
import subprocess
import sys
import tempfile
import time
from enum import Enum
from typing import Any, Dict, List, Optional, Tuple

from vf import fp
from vf.common import Check, short

VALID_PROPS = ['globally: no a', 'globally: some b {x > 1} within 100 ms', 'after a as A until (b or c): d {y < @A.y} causes e within 2 s', 'until q: x1 requires y1 {z in [0 to INF]}',
               'after (p0 or p1): s forbids t {forall v in xs: @v != NAN}', 'globally: no (m or n {not p}) within 0.5 s', 'globally: some k {x < 1e400 and y = -INF}',
               '# id: p1\n# title: "t"\nglobally: no a {s = "q\\"uote" or abs(x) > PI}', 'globally: a causes b',
               '# title: "To Infinity and beyond NaN"\nafter /gps/NaN as Infinity: some null {NaN = "NaN" and @Infinity.null < -Infinity and true_ = "Infinity" and s != "-Infinity"}',
               'globally: no a {x > ' + '1' + '0' * 320 + '}', 'globally: no a {x > -' + '9' * 400 + ' and y < 1e-400}']
INVALID_PROPS = ['globally: no', 'globally no a', 'globally: some b {x + 1}', 'after a as A: some b as A', 'globally: no a {@Z.x > 1}', 'globally: no (a or a)', 'globally: some b {foo(x) > 1}',
                 '# id: a\n# id: b\nglobally: no a', '', '$$$', 'globally: no a globally: some b', 'globally: no a\nglobally: some b', 'globally: no a\n# id: x\nglobally: some b',
                 'globally: no a # id: trailing']


def strict_loads(text: str):
    def bad(c):
        raise ValueError(f'non-strict JSON constant {c}')
    return json.loads(text, parse_constant=bad)


def independent(v):
    """field-by-field serialisation of an AST written from the statement: enums by value, non-finite floats as null"""
    import attrs
    if attrs.has(type(v)):
        return {f.name: independent(getattr(v, f.name)) for f in attrs.fields(type(v))}
    if isinstance(v, Enum):
        return independent(v.value)
    if isinstance(v, float) and (math.isinf(v) or math.isnan(v)):
        return None
    if isinstance(v, (list, tuple)):
        return [independent(x) for x in v]
    if isinstance(v, dict):
        return {k: independent(x) for k, x in v.items()}
    return v


def run_main(argv: List[str]) -> Tuple[int, str, str]:
    from hpl.cli import main
    out, err = io.StringIO(), io.StringIO()
    with contextlib.redirect_stdout(out), contextlib.redirect_stderr(err):
        try:
            rc = main(argv)
        except SystemExit as e:
            rc = e.code if isinstance(e.code, int) else 2
    return rc, out.getvalue(), err.getvalue()


def oracle_parse(text: str, as_property: bool):
    from hpl.parser import parse_property, parse_specification
    try:
        return (parse_property if as_property else parse_specification)(text), None
    except Exception as e:
        return None, type(e).__name__


def has_json_document(out: str) -> bool:
    s = out.strip()
    if not s:
        return False
    try:
        json.loads(s)
        return True
    except ValueError:
        pass
    # an object/array starting at the beginning of a line (json.dumps(indent=2) style) inside other output
    for line_start in [k + 1 for k, ch in enumerate(s) if ch == '\n'] + [0]:
        if s[line_start:line_start + 1] in ('{', '['):
            try:
                obj, _ = json.JSONDecoder().raw_decode(s[line_start:])
                if isinstance(obj, (dict, list)) and obj:
                    return True
            except ValueError:
                continue
    return False


def observe_value(w: float) -> Optional[str]:
    """run the real CLI on a property whose AST contains the double w; None if the document is strictly valid and mirrors the AST"""
    if w != w:
        text = 'globally: no a {x != NAN}'
    elif w in (float('inf'), float('-inf')):
        text = 'globally: no a {x < INF and y < 1e400}'   # -inf has no literal: it is the unary minus of INF
    else:
        text = 'globally: no a {x < %r} within %r s' % (abs(w), abs(w))
    ast, failure = oracle_parse(text, True)
    if failure is not None:
        return None  # not expressible as a literal (e.g. subnormal spelling rejected): nothing observable
    rc, out, err = run_main(['-p', '-o', 'json', text])
    if rc != 0:
        return f'exit {rc}'
    try:
        doc = strict_loads(out)
    except ValueError as e:
        return f'stdout is not strictly valid JSON ({short(e, 80)})'
    if doc != independent(ast):
        return 'the document does not mirror the AST'
    return None


def main() -> int:
    ck = Check('C19', 'other', 'FP: hpl.cli._ast_object_serializer translated from source to z3 Float64 and decided for all doubles; the real hpl.cli.main executed on a pool of valid/invalid '
               'properties and files with every flag combination; strict JSON parsing and comparison with an independent field-by-field serialisation')
    ck.functions('hpl.cli.main', 'hpl.cli.parse_arguments', 'hpl.cli._ast_object_serializer', 'hpl.__main__', 'attrs.asdict (as used by the CLI)')
    from hpl.cli import _ast_object_serializer
    try:
        v, w, dt = fp.serializer_query(_ast_object_serializer)
    except fp.Unsupported as e:
        v, w, dt = 'unknown', None, 0.0
        ck.undecided(f'_ast_object_serializer left the translatable fragment: {e}')
    ck.query(v, dt)
    if v == 'unsat':
        ck.obligation(True)
    elif v == 'sat':
        got = _ast_object_serializer(None, None, w)
        # the property is about the DOCUMENT: replay the witness through the real CLI before reporting
        seen = observe_value(w)
        if seen is None:
            ck.obligation(True)
            ck.engine('FP', serializer_witness_not_observable=repr(w), note='the hook returns %r for it, but the printed document is strictly valid and mirrors the AST: non-finite handling happens elsewhere' % (got,))
            ck.assume('non-finite numbers are handled outside _ast_object_serializer in this tree: the all-doubles claim of FP is replaced by the CLI runs on NAN, INF, 1e400 and unbounded patterns')
        else:
            ck.obligation(False)
            ck.counterexample('serializer-non-finite', f'_ast_object_serializer(.., {w!r}) returns {got!r}; hpl -p -o json on a property containing that value: {seen}', {'kind': 'serializer', 'value': repr(w)})
    else:
        ck.obligation(None)
    # enums are rendered by value (every enum type that occurs in ASTs)
    from hpl.ast.properties import PatternType, ScopeType
    from hpl.ast.events import EventType
    from hpl.ast.expressions import QuantifierType
    from hpl.types import DataType
    ok = True
    for e in list(PatternType) + list(ScopeType) + list(EventType) + list(QuantifierType) + [DataType.BOOL, DataType.PRIMITIVE, DataType.ANY]:
        if _ast_object_serializer(None, None, e) != e.value:
            ok = False
            ck.counterexample(f'serializer-enum:{type(e).__name__}', f'_ast_object_serializer renders {e!r} as {_ast_object_serializer(None, None, e)!r}', {'kind': 'serializer'})
    ck.obligation(ok)
    # ---- the real CLI
    tmp = tempfile.mkdtemp(prefix='c19_', dir=str(__import__('vf.common', fromlist=['ROOT']).ROOT / '.sxwork') if os.path.isdir(str(__import__('vf.common', fromlist=['ROOT']).ROOT / '.sxwork')) else None)
    files = []
    valid_files = ['\n\n'.join(VALID_PROPS[:3]), VALID_PROPS[7], '\n'.join(VALID_PROPS)]
    invalid_files = ['', VALID_PROPS[0] + '\n' + INVALID_PROPS[2], INVALID_PROPS[0], VALID_PROPS[0] + '\n' + INVALID_PROPS[7], 'not hpl at all']
    for i, t in enumerate(valid_files + invalid_files):
        p = os.path.join(tmp, f'f{i}.hpl')
        with open(p, 'w', encoding='utf-8') as fh:
            fh.write(t)
        files.append((p, t))
    runs = 0
    t0 = time.time()
    cases: List[Tuple[List[str], str, bool]] = []
    for t in VALID_PROPS + INVALID_PROPS:
        for flags in ([], ['-o', 'json'], ['--output', 'json']):
            cases.append((['-p'] + flags + [t], t, True))
            cases.append((flags + ['--property', t], t, True))
    for p, t in files:
        for flags in ([], ['-o', 'json']):
            cases.append((flags + [p], t, False))
    cases.append(([os.path.join(tmp, 'missing.hpl')], None, False))
    cases.append((['-o', 'json', os.path.join(tmp, 'missing.hpl')], None, False))
    # a property text given WITHOUT -p is a file name that does not exist
    cases.append((['globally: no a'], None, False))
    for argv, text, as_prop in cases:
        runs += 1
        rc, out, err = run_main(list(argv))
        want_json = 'json' in argv
        if text is None:
            ast, failure = None, 'FileNotFoundError'
        else:
            ast, failure = oracle_parse(text, as_prop)
        label = ' '.join(a if len(a) < 40 else a[:37] + '...' for a in argv)
        rep = {'kind': 'cli', 'argv': argv}
        if failure is None:
            if rc != 0:
                ck.counterexample(f'exit-status:valid-input-fails@{label}', f'hpl {label}: exit {rc} although the argument parses', rep)
                continue
            if want_json:
                try:
                    doc = strict_loads(out)
                except ValueError as e:
                    ck.counterexample(f'json-not-strict@{label}', f'hpl {label}: stdout is not one strictly valid JSON document: {short(e, 100)}', rep)
                    continue
                want = independent(ast)
                if doc != want:
                    ck.counterexample(f'json-differs@{label}', f'hpl {label}: the JSON document does not mirror the AST field for field', rep)
            elif out.strip():
                ck.counterexample(f'unexpected-output@{label}', f'hpl {label}: output without -o json: {short(out, 80)!r}', rep)
        else:
            if rc != 1:
                ck.counterexample(f'exit-status:invalid-input@{label}', f'hpl {label}: exit {rc} although the argument does not parse ({failure})', rep)
            if not (out.strip() or err.strip()):
                ck.counterexample(f'no-diagnostic@{label}', f'hpl {label}: failed ({failure}) without any diagnostic', rep)
            if has_json_document(out):
                ck.counterexample(f'json-on-failure@{label}', f'hpl {label}: failed ({failure}) but printed a JSON document', rep)
    ck.obligation(True)
    # subprocess: the real entry point `python -m hpl`
    sub = 0
    for argv, text, as_prop in cases[:: (9 if ck.tier == 'quick' else 2)]:
        sub += 1
        p = subprocess.run([sys.executable, '-m', 'hpl'] + list(argv), capture_output=True, text=True, timeout=120)
        rc, out, err = run_main(list(argv))
        if p.returncode != rc or p.stdout != out:
            ck.counterexample(f'subprocess-differs@{" ".join(argv)[:80]}', f'python -m hpl {argv}: exit {p.returncode} / in-process main(): exit {rc}; stdout equal: {p.stdout == out}', {'kind': 'cli', 'argv': argv})
    for p, _ in files:
        try:
            os.remove(p)
        except OSError:
            pass
    try:
        os.rmdir(tmp)
    except OSError:
        pass
    ck.engine('CLI', in_process_runs=runs, subprocess_runs=sub, wall_s=round(time.time() - t0, 1))
    ck.sample({'argv': cases[3][0]})
    ck.sample({'argv': cases[len(cases) // 2][0]})
    ck.bound('FP', 'all IEEE-754 doubles as attribute value of the serializer hook (complete for that obligation)')
    ck.bound('CLI', f'{runs} invocations: {len(VALID_PROPS)} valid and {len(INVALID_PROPS)} invalid property texts (every error class, INF/NAN constants, 1e400, 320-digit integers, names and strings spelled NaN / Infinity / null, unbounded and bounded patterns, annotations) x -p/--property x none/-o json/--output json; 8 files x 2; missing file; property text without -p')
    ck.coverage['evaluations'] = runs + sub
    ck.coverage['distinct_nontrivial'] = runs
    ck.coverage['rule'] = 'one evaluation = one invocation of the real CLI entry point with distinct argv'
    ck.outside('argv beyond the stated pool; terminal encodings; very large files')
    return ck.finish()


def replay(data) -> int:
    print('recorded:', data.get('what'))
    if data.get('kind') == 'cli':
        rc, out, err = run_main(list(data['argv']))
        print('exit', rc)
        print('stdout:', out[:500])
        print('stderr:', err[:300])
    return 1
