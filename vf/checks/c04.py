"""C04 Well-typed specifications are never rejected.

(a) SF: for ALL child type sets of every construction form, construction succeeds whenever every child has a possible type inside its
    parameter type (jointly for unified operands) — the 'complete' lemma.
(b) schema-directed generation: every predicate generated type-directedly from two message schemas (current message, aliased earlier
    message; booleans, numbers, strings, fixed/variable arrays, nested messages, arrays of messages, constants, quantified variables)
    is accepted through the callbacks and the real parser, every reference's inferred type set contains its schema type, and the
    property-level check against the schemas succeeds.
"""
from __future__ import annotations

import time
from typing import Any, Dict, List

from vf import gen, par, props, rw, schemas as S, sem, symtypes as ST
from vf.common import Check, short

CP = None
TOK = None
KNOWN_ALIAS = 'type_check_references:alias-root-unresolved'
KNOWN_QNAME = 'rejected:quantifier-variable-name-reused-at-different-types'


def init():
    global CP, TOK
    if CP is None:
        from hpl.parser import condition_parser
        CP = condition_parser()
        TOK = (S.message_token(S.SCHEMA_THIS, 'This'), S.message_token(S.SCHEMA_ALIAS, 'Alias'))


def node_ref_spec(node):
    k = sem.kind(node)
    if k == 'HplVarReference':
        return ('var', node.token[1:])
    if k == 'HplThisMessage':
        return None
    if k == 'HplFieldAccess':
        if sem.kind(node.message) == 'HplThisMessage':
            return ('f', node.field)
        inner = node_ref_spec(node.message)
        return None if inner is None else ('fa', inner, node.field)
    if k == 'HplArrayAccess':
        inner = node_ref_spec(node.array)
        if inner is None:
            return None
        ix = node.index
        if sem.kind(ix) == 'HplLiteral':
            return ('idx', inner, ('lit', ix.value))
        return ('idx', inner, ('f', '_nonliteral'))
    return None


def case(spec):
    init()
    from hpl.ast.predicates import HplPredicateExpression
    found = []
    text = gen.render(spec)
    rep = {'kind': 'welltyped', 'spec': spec, 'text': text}
    try:
        e = gen.build(spec)
        pred = HplPredicateExpression(e) if sem.kind(e) != 'HplLiteral' else None
    except Exception as ex:
        if isinstance(ex, TypeError) and S.same_name_explicit_clash(spec):
            # recorded defect class: two quantifiers reuse a variable NAME and the contexts of the two variables state disjoint types
            # explicitly (the same-reference check ignores scoping). Membership: that syntactic condition (independent of hpl) AND
            # the predicate is accepted by the real code once the quantified variables are renamed apart
            try:
                e2 = gen.build(S.rename_quantifiers_apart(spec))
                if sem.kind(e2) != 'HplLiteral':
                    HplPredicateExpression(e2)
                return [(KNOWN_QNAME, f'well-typed «{text}» is rejected with a TypeError but accepted after renaming its quantified variables apart', rep)], 1
            except Exception:
                pass
        return [(f'rejected:{type(ex).__name__}@{text}', f'well-typed «{text}» rejected by the callbacks: {type(ex).__name__}: {short(ex, 120)}', rep)], 1
    if pred is None:
        return [], 0
    try:
        # calls with several arguments have no concrete syntax in the grammar (function_call takes one expr): callbacks only
        parsed = CP.parse(text) if gen.parseable(spec) else pred
        if parsed != pred:
            found.append((f'parse-differs@{text}', f'real parser and callbacks disagree on «{text}»', rep))
    except Exception as ex:
        found.append((f'rejected-by-parser:{type(ex).__name__}@{text}', f'well-typed «{text}» rejected by the parser: {type(ex).__name__}: {short(ex, 120)}', rep))
    # the same predicate over fields whose names merely START like a keyword, constant or unit must be accepted just the same
    if hash(text) % 4 == 0 or len(text) < 28:
        twin = S.keywordish_twin(spec)
        ttext = gen.render(twin)
        try:
            tp = HplPredicateExpression(gen.build(twin))
            if gen.parseable(twin) and CP.parse(ttext) != tp:
                found.append((f'parse-differs@{ttext}', f'real parser and callbacks disagree on «{ttext}»', dict(rep, spec=twin, text=ttext)))
        except Exception as ex:
            found.append((f'rejected-by-parser:{type(ex).__name__}@{ttext}', f'well-typed «{ttext}» (names shaped like keywords) rejected: {type(ex).__name__}: {short(ex, 120)}', dict(rep, spec=twin, text=ttext)))
    # inferred type set of every reference contains the schema type
    qv = {}
    for n, bound in _nodes_with_bound(pred.condition):
        k = sem.kind(n)
        if k not in ('HplFieldAccess', 'HplArrayAccess'):
            continue
        rs = node_ref_spec(n)
        if rs is None or S.root_of(rs)[0] == 'var' and S.root_of(rs)[1] in bound:
            continue
        try:
            t = S.resolve(rs, S.SCHEMA_THIS, {'A': S.SCHEMA_ALIAS}, ())
        except S.Fault as f:
            found.append((f'harness-unresolved@{text}', f'generator produced an unresolvable reference {rs}: {f}', rep))
            continue
        if not (n.data_type.value & S.type_mask(t)):
            found.append((f'inferred-type-excludes-schema-type@{text}', f'in «{text}» reference «{n}» is inferred {n.data_type!r} but the schema says {t}', rep))
    # property-level check against the schemas: the predicate sits where @A is in scope, in every binding arrangement
    uses_alias = sem.mentions_var(pred.condition, 'A')
    ev_b = ('ev', 't2', None, spec)
    host = ('ev', 't1', 'A', None)
    plain = ('ev', 't3', None, None)
    arrangements = [
        {'scope': 'globally', 'pattern': 'response', 'trigger': host, 'behaviour': ev_b},
        {'scope': 'globally', 'pattern': 'prevention', 'trigger': host, 'behaviour': ev_b},
        {'scope': 'globally', 'pattern': 'requirement', 'behaviour': host, 'trigger': ev_b},      # b as A requires t2 {...@A...}
        {'scope': 'after', 'pattern': 'existence', 'activator': host, 'behaviour': ev_b},
        {'scope': 'after_until', 'pattern': 'absence', 'activator': host, 'terminator': ev_b, 'behaviour': plain},
        {'scope': 'after', 'pattern': 'requirement', 'activator': host, 'behaviour': plain, 'trigger': ev_b},
    ]
    k = (hash(text) % len(arrangements))
    for j, arr in enumerate(arrangements):
        if j not in (0, k):
            continue
        q = {'scope': 'globally', 'pattern': 'response', 'activator': None, 'terminator': None, 'trigger': None, 'behaviour': None, 'max_time': None, 'meta': None}
        q.update(arr)
        try:
            props.build_property(q)
        except Exception as ex:
            found.append((f'property-rejected:{type(ex).__name__}:{arr["scope"]}/{arr["pattern"]}@{text}', f'property «{props.render_property(q)}» around a well-typed predicate rejected: {type(ex).__name__}: {short(ex, 100)}', rep))
    p = {'scope': 'globally', 'pattern': 'response', 'activator': None, 'terminator': None, 'trigger': ('ev', 't1', 'A', None), 'behaviour': ev_b, 'max_time': None, 'meta': None}
    try:
        prop = props.build_property(p)
    except Exception as ex:
        return found, 1
    this_tok, alias_tok = TOK
    try:
        prop.type_check_references({'t1': alias_tok, 't2': this_tok, 'A': alias_tok})
    except Exception as ex:
        found.append((f'schema-check-rejected:{type(ex).__name__}@{text}', f'type_check_references rejects well-typed «{text}»: {type(ex).__name__}: {short(ex, 140)}', rep))
    try:
        props.build_property(p).type_check_references({'t1': alias_tok, 't2': this_tok})
    except Exception as ex:
        if uses_alias and type(ex).__name__ == 'HplSanityError' and 'no type token' in str(ex):
            found.append((KNOWN_ALIAS, f'property «t1 as A causes t2 {{{text}}}»: type_check_references({{t1, t2}}) raises HplSanityError: {short(ex, 80)}', rep))
        else:
            found.append((f'schema-check-rejected:{type(ex).__name__}@{text}', f'type_check_references rejects well-typed «{text}»: {type(ex).__name__}: {short(ex, 140)}', rep))
    return found, 1


def _nodes_with_bound(e, bound=frozenset()):
    yield e, bound
    k = sem.kind(e)
    for c in sem._kids(e):
        yield from _nodes_with_bound(c, bound | ({e.variable} if k == 'HplQuantifier' and c is e.condition else frozenset()))


def worker(chunk):
    out = []
    for spec in chunk:
        try:
            out.append((spec, case(spec)))
        except Exception as e:
            out.append((spec, ([('harness', f'{type(e).__name__}: {short(e, 200)}', {})], -1)))
    return out


def main() -> int:
    ck = Check('C04', 'other', 'SF: the real constructors/parser callbacks on children with symbolic 7-bit type sets: z3 decides for ALL type sets that compatible children are never rejected. '
               'Schema-directed generation of well-typed predicates (two schemas) checked through callbacks, the real parser, per-reference inferred types and the property-level schema check.')
    ck.functions('hpl.types.DataType.cast', 'hpl.ast.expressions.HplExpression.cast/_type_check', 'hpl.ast.expressions.HplBinaryOperator.__attrs_post_init__',
                 'hpl.ast.predicates._get_reference_table/_all_refs_same_type', 'hpl.ast.expressions.HplExpression/HplDataAccess.type_check_references',
                 'hpl.ast.expressions.HplFieldAccess/HplArrayAccess._get_next_token', 'hpl.ast.events.*.type_check_references', 'hpl.ast.properties.HplProperty.type_check_references')
    t0 = time.time()
    forms = ST.forms()
    paths = 0
    for f in forms:
        r = ST.run_form(f, lemmas=('complete',))
        paths += r.paths
        ck.query('unsat', r.solver_s, r.queries)
        if r.unknown:
            ck.obligation(None)
            ck.undecided(f'SF {f.name}: z3 unknown')
        elif 'complete' in r.failures:
            ck.obligation(False)
            masks = r.failures['complete']
            what = ST.concrete_replay(f, masks, 'complete')
            if what is None:
                ck.undecided(f'SF counterexample for {f.name} (complete, type sets {masks}) does not replay')
            else:
                ck.counterexample(f'complete:{f.name}', what, {'kind': 'sf', 'form': f.name, 'masks': masks, 'lemma': 'complete'})
        else:
            ck.obligation(True)
    ck.engine('SF', forms=len(forms), paths=paths, wall_s=round(time.time() - t0, 1))
    fams = S.typed_terms(ck.tier)
    t0 = time.time()
    total = 0
    for name, specs in fams.items():
        results = [x for c in par.pmap_chunks(worker, specs, 40) for x in c]
        for spec, (found, n) in results:
            if n < 0:
                ck.undecided(found[0][1])
                continue
            total += n
            real = [f for f in found if f[0] not in (KNOWN_ALIAS, KNOWN_QNAME)]
            ck.obligation(not real)
            for sig, what, rep in found:
                ck.counterexample(sig, what, rep)
        ck.sample({'family': name, 'predicate': gen.render(specs[len(specs) // 3])})
    ck.engine('schema-directed', predicates=total, wall_s=round(time.time() - t0, 1))
    ck.bound('SF', f'all 7-bit type sets of every child for {len(forms)} construction forms')
    ck.bound('generation', f'{total} predicates of depth <= 3 over two fixed schemas (16 + 6 fields: bool, number, string, fixed/variable arrays, nested messages to depth 2, arrays of messages, arrays of arrays, constants), '
             'references to the current message, to an aliased earlier message and to quantified variables over arrays, sets and ranges')
    ck.coverage['evaluations'] = total
    ck.coverage['distinct_nontrivial'] = total
    ck.coverage['rule'] = 'one evaluation = one generated well-typed predicate through callbacks + real parser + per-reference type comparison + property-level schema check; all are distinct'
    ck.assume('msg_types also maps the alias name to the type of the aliased event for the main obligation; without that entry the recorded alias defect fires')
    ck.outside('quantification over arrays of messages (quantified variables are typed as primitives); schemas other than the two fixed ones')
    return ck.finish()


def replay(data) -> int:
    print('recorded:', data.get('what'))
    if data.get('kind') == 'welltyped':
        print('re-run  :', [f[0] for f in case(rw.tuplify(data['spec']))[0]])
    return 1
