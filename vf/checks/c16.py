"""C16 ASTs are immutable values: no API call changes an existing tree.

(1) SF: the 'pure' lemma of vf.symtypes — constructors, parser callbacks, cast() and but() run on child nodes whose stored
    type set is a symbolic 7-bit term; the children handed in must keep their type sets for ALL type sets.
(2) snapshot exploration: every API call (queries, printers, cast, but, rewriting functions, negate/join, property-level
    type check, canonical_form) on every subtree of the enumerated trees, and call sequences up to length 3 on the roots
    (sequence codes are explorer choices); a deep snapshot (structure, stored types, metadata, hash) is compared.
"""
from __future__ import annotations

import itertools
import random
import time
import traceback
from typing import Any, Dict, List, Optional, Tuple

import z3

from vf import families, gen, par, props, rw, sem, sf, symtypes
from vf.common import Check, short

FIELDS = {'HplUnaryOperator': ['operand'], 'HplBinaryOperator': ['operand1', 'operand2'], 'HplFieldAccess': ['message'], 'HplArrayAccess': ['array', 'index'],
          'HplSet': ['values'], 'HplRange': ['min_value', 'max_value'], 'HplFunctionCall': ['arguments'], 'HplQuantifier': ['domain', 'condition']}


# ---------------------------------------------------------------------------------------------------------------
# (1) symbolic type sets
# ---------------------------------------------------------------------------------------------------------------

def sf_part(ck: Check):
    t0 = time.time()
    forms = symtypes.forms()
    paths = 0
    for f in forms:
        r = symtypes.run_form(f, lemmas=('pure',))
        paths += r.paths
        ck.query('unsat', r.solver_s, r.queries)
        if r.unknown:
            ck.obligation(None)
            ck.undecided(f'SF {f.name}: z3 unknown')
            continue
        if 'pure' not in r.failures:
            ck.obligation(True)
            continue
        ck.obligation(False)
        masks = r.failures['pure']
        what = symtypes.concrete_replay(f, masks, 'pure')
        if what is None:
            ck.undecided(f'SF counterexample for {f.name} with type sets {masks} does not replay on real DataType values')
            continue
        # which field of which parent class narrowed its child in place (replayed on the real code)
        parent_cls, fld = culprit(f, masks)
        ck.counterexample(f'inplace-narrowing:{f.route}:{parent_cls}.{fld}', what, {'kind': 'sf-pure', 'form': f.name, 'masks': masks})
    # cast(): never changes the receiver; result carries exactly the intersection; TypeError iff empty
    a, t = z3.BitVec('m0', 7), z3.BitVec('t', 7)
    for kind in ('var', 'field'):
        pre = [symtypes.nonempty(a), symtypes.subset(a, symtypes.bv(symtypes.LEAF_DEFAULT[kind]))]
        holder: List[Any] = []

        def fn():
            holder.clear()
            leaf = symtypes.leaf(kind, a)
            holder.append(leaf)
            return (leaf, leaf.cast(sf.SymFlag(t)))

        ps, ctx = sf.explore(fn, 7, pre)
        paths += len(ps)
        ok = True
        for pc, (k, val) in ps:
            if k == 'raise':
                claim = z3.And(val == 'TypeError', (a & t) == symtypes.bv(0)) if val == 'TypeError' else z3.BoolVal(False)
            else:
                leaf, out = val
                claim = z3.And((a & t) != symtypes.bv(0), symtypes._t(leaf.data_type) == a, symtypes._t(out.data_type) == (a & t),
                               z3.BoolVal(out is leaf) == ((a & t) == a))
            v, m, dt = sf.valid(claim, pre + [pc])
            ck.query(v, dt)
            if v != 'unsat':
                ok = False
                if v == 'sat':
                    av, tv = m.eval(a, model_completion=True).as_long(), m.eval(t, model_completion=True).as_long()
                    ck.counterexample(f'cast-contract:{kind}', f'cast of a {kind} reference with type set {av} to {tv}: receiver changed, or result is not the intersection, or wrong identity/exception',
                                      {'kind': 'sf-cast', 'leaf': kind, 'a': av, 't': tv})
                else:
                    ck.undecided('cast lemma: z3 unknown')
        ck.obligation(ok)
    ck.engine('SF', forms=len(forms) + 2, paths=paths, wall_s=round(time.time() - t0, 1))


def culprit(form, masks) -> Tuple[str, str]:
    from hpl.ast.expressions import HplFieldAccess, HplThisMessage, HplVarReference
    from hpl.types import DataType
    lv = [HplFieldAccess(HplThisMessage(), 'f', data_type=DataType(m)) for m in masks]
    before = [l.data_type for l in lv]
    parent = form.build(list(lv))
    cls = type(parent).__name__
    for i, l in enumerate(lv):
        if l.data_type != before[i]:
            fl = FIELDS.get(cls, ['?'])
            return cls, fl[min(i, len(fl) - 1)]
    return cls, '?'


# ---------------------------------------------------------------------------------------------------------------
# (2) snapshots
# ---------------------------------------------------------------------------------------------------------------

def nodes_of(root) -> List[Any]:
    import attrs
    from hpl.ast.base import HplAstObject
    out = []
    seen = set()

    def walk(n):
        if id(n) in seen:
            return
        seen.add(id(n))
        out.append(n)
        for f in attrs.fields(type(n)):
            v = getattr(n, f.name)
            if isinstance(v, HplAstObject):
                walk(v)
            elif isinstance(v, tuple):
                for x in v:
                    if isinstance(x, HplAstObject):
                        walk(x)
    walk(root)
    return out


def snapshot(root):
    import attrs
    from hpl.ast.base import HplAstObject
    snap = []
    for n in nodes_of(root):
        fv = []
        for f in attrs.fields(type(n)):
            v = getattr(n, f.name)
            if isinstance(v, HplAstObject):
                fv.append((f.name, 'node', id(v)))
            elif isinstance(v, tuple) and any(isinstance(x, HplAstObject) for x in v):
                fv.append((f.name, 'nodes', tuple(id(x) for x in v)))
            elif f.name == 'metadata':
                fv.append((f.name, 'meta', id(v), tuple(sorted((str(k), repr(x)) for k, x in v.items()))))
            else:
                fv.append((f.name, 'val', repr(v)))
        try:
            h = hash(n)
        except Exception as e:
            h = f'unhashable:{type(e).__name__}'
        snap.append((id(n), type(n).__name__, tuple(fv), h))
    return snap


def diff(before, after) -> Optional[str]:
    if len(before) != len(after):
        return 'number of reachable nodes changed'
    for b, a in zip(before, after):
        if b != a:
            if b[0] != a[0] or b[1] != a[1]:
                return f'node identity/class changed ({b[1]} -> {a[1]})'
            for fb, fa in zip(b[2], a[2]):
                if fb != fa:
                    return f'{b[1]}.{fb[0]}: {fb[-1]} -> {fa[-1]}'
            return f'{b[1]}: hash changed'
    return None


def schema():
    from hpl.types import ArrayType, MessageType, TypeToken, DataType
    num = TypeToken('float64', DataType.NUMBER)
    boo = TypeToken('bool', DataType.BOOL)
    st = TypeToken('string', DataType.STRING)
    inner = MessageType('Inner', fields={'x': num, 'y': num})
    fields = {'x': num, 'y': num, 'z': num, 'i': num, 'p': boo, 'q': boo, 'r': boo, 's': st, 't': st, 'xs': ArrayType('float64[]', num), 'ys': ArrayType('float64[]', num),
              'ps': ArrayType('bool[]', boo), 'm': inner, 'ms': ArrayType('Inner[]', inner)}
    return MessageType('Msg', fields=fields)


def expr_apis():
    from hpl.rewrite import refactor_reference, replace_this_with_var, replace_var_with_this, simplify, split_and
    from hpl.types import DataType
    sc = schema()
    A: List[Tuple[str, Any]] = [
        ('str', lambda t: str(t)), ('repr', lambda t: repr(t)), ('hash', lambda t: hash(t)), ('eq', lambda t: t == t), ('iterate', lambda t: list(t.iterate())),
        ('children', lambda t: t.children()), ('external_references', lambda t: t.external_references()), ('contains_reference', lambda t: t.contains_reference('A')),
        ('contains_self_reference', lambda t: t.contains_self_reference()), ('contains_definition', lambda t: t.contains_definition('v')),
        ('is_fully_typed', lambda t: t.is_fully_typed()), ('cast-bool', lambda t: t.cast(DataType.BOOL)), ('cast-number', lambda t: t.cast(DataType.NUMBER)),
        ('cast-any', lambda t: t.cast(DataType.ANY)), ('but()', lambda t: t.but()), ('simplify', simplify), ('split_and', split_and),
        ('refactor_reference', lambda t: refactor_reference(t, 'A')), ('replace_this_with_var', lambda t: replace_this_with_var(t, 'A')),
        ('replace_var_with_this', lambda t: replace_var_with_this(t, 'A')), ('type_check_references', lambda t: t.type_check_references(sc, {'A': sc})),
        ('replace_self_reference', lambda t: t.replace_self_reference(gen.build(('var', 'Z')))),
        ('all-public-queries', touch_all_public),
    ]
    return A


def pred_apis():
    from hpl.ast.predicates import HplPredicateExpression, HplVacuousTruth
    from hpl.rewrite import refactor_reference, replace_this_with_var, replace_var_with_this, simplify, split_and
    sc = schema()
    other = HplPredicateExpression(gen.build(('bin', '<', ('f', 'x'), ('lit', 3))))
    return [
        ('str', lambda t: str(t)), ('hash', lambda t: hash(t)), ('negate', lambda t: t.negate()), ('join', lambda t: t.join(other)), ('join-rev', lambda t: other.join(t)),
        ('join-true', lambda t: t.join(HplVacuousTruth())), ('simplify', simplify), ('split_and', split_and), ('refactor_reference', lambda t: refactor_reference(t, 'A')),
        ('replace_this_with_var', lambda t: replace_this_with_var(t, 'A')), ('replace_var_with_this', lambda t: replace_var_with_this(t, 'A')),
        ('type_check_references', lambda t: t.type_check_references(sc, {'A': sc})), ('check_some_self_references', lambda t: t.check_some_self_references()),
        ('is_fully_typed', lambda t: t.is_fully_typed()), ('but()', lambda t: t.but()), ('but(expression=same)', lambda t: t.but(expression=t.expression)),
        ('external_references', lambda t: t.external_references()), ('contains_reference', lambda t: t.contains_reference('A')), ('all-public-queries', touch_all_public),
    ]


def touch_all_public(node):
    """read every public attribute/property and call every public method that needs no argument: all of them are queries"""
    import inspect
    for name in dir(type(node)):
        if name.startswith('_') or name in ('but',):
            continue
        try:
            attr = getattr(node, name)
        except Exception:
            continue
        if callable(attr):
            try:
                sig = inspect.signature(attr)
                if all(p.default is not inspect.Parameter.empty or p.kind in (p.VAR_POSITIONAL, p.VAR_KEYWORD) for p in sig.parameters.values()):
                    r = attr()
                    if inspect.isgenerator(r) or hasattr(r, '__next__'):
                        list(r)
            except Exception:
                pass


def call(api, target) -> Optional[BaseException]:
    try:
        api(target)
        return None
    except Exception as e:  # the call may legitimately fail; it must still not change anything
        return e


MUTATION_LOG: List[str] = []


def install_probe():
    """run-time wrapper (no source edit): log which function of hpl.rewrite (or which constructor) forces a type set in place"""
    from hpl.ast import expressions as X
    orig = X.HplExpression._type_check
    if getattr(orig, '_verif_wrapped', False):
        return

    def wrapped(self, expr, t, *, force=False):
        before = expr.data_type
        r = orig(self, expr, t, force=force)
        if force and expr.data_type != before:
            site = 'constructor'
            for fr in traceback.extract_stack():
                if fr.filename.endswith('/hpl/rewrite.py'):
                    site = fr.name
            MUTATION_LOG.append(f'{site}:{type(self).__name__}')
        return r
    wrapped._verif_wrapped = True
    X.HplExpression._type_check = wrapped


def explore_tree(item):
    """all single calls on every subtree, pairs and (seeded) triples on the root; returns findings"""
    spec, as_pred, seed = item
    install_probe()
    from hpl.ast.predicates import HplPredicateExpression
    findings = []
    calls = 0

    def fresh():
        e = gen.build(spec)
        return HplPredicateExpression(e) if as_pred else e

    try:
        root = fresh()
    except TypeError:
        return {'calls': 0, 'findings': []}
    apis = pred_apis() if as_pred else expr_apis()
    text = str(root)
    subtrees = [n for n in nodes_of(root) if getattr(n, 'is_expression', False)] if not as_pred else [root]
    eapis = expr_apis()
    # every API on every subtree (fresh tree per call so that one finding does not hide the next)
    for si in range(len(subtrees)):
        for name, api in (apis if as_pred else eapis):
            root = fresh()
            target = ([n for n in nodes_of(root) if getattr(n, 'is_expression', False)] if not as_pred else [root])[si]
            before = snapshot(root)
            MUTATION_LOG.clear()
            call(api, target)
            calls += 1
            d = diff(before, snapshot(root))
            if d:
                site = MUTATION_LOG[-1] if MUTATION_LOG else 'unknown-site'
                findings.append((f'mutates:{name}:{site}', f'{name} on subtree «{target}» of «{text}» changed the tree: {d}', text, name))
    # sequences on the root
    rnd = random.Random(seed)
    names = list(range(len(apis)))
    seqs = list(itertools.product(names, repeat=2)) + [tuple(rnd.choice(names) for _ in range(3)) for _ in range(40)]
    for seq in seqs:
        root = fresh()
        before = snapshot(root)
        for pos, i in enumerate(seq):
            MUTATION_LOG.clear()
            call(apis[i][1], root)
            calls += 1
            d = diff(before, snapshot(root))
            if d:
                # attributed to the call of the sequence after which the tree first differs
                nm = '+'.join(apis[j][0] for j in seq[:pos + 1])
                site = MUTATION_LOG[-1] if MUTATION_LOG else 'unknown-site'
                findings.append((f'mutates:{apis[i][0]}:{site}', f'after the calls {nm} on «{text}» the tree changed: {d}', text, apis[i][0]))
                break
    # keep one finding per (api, site)
    uniq: Dict[str, Any] = {}
    for f in findings:
        uniq.setdefault(f[0], f)
    return {'calls': calls, 'findings': list(uniq.values())}


def worker(chunk):
    out = []
    for item in chunk:
        try:
            out.append((item, explore_tree(item)))
        except Exception as e:
            out.append((item, {'calls': 0, 'findings': [], 'error': f'{type(e).__name__}: {short(e, 200)}'}))
    return out


def but_contract(ck: Check, specs):
    """but(): identity when nothing changes; otherwise equal to a fresh construction, metadata copied not shared, eq/hash ignore metadata"""
    import attrs
    bad = 0
    n = 0
    for spec in specs:
        try:
            e = gen.build(spec)
        except TypeError:
            continue
        for node in [x for x in nodes_of(e) if getattr(x, 'is_expression', False)][:6]:
            n += 1
            node.metadata['k'] = [1]
            if node.but() is not node:
                ck.counterexample('but:identity-noargs', f'but() of «{node}» is not the same object', {'kind': 'but', 'text': str(node)})
                bad += 1
            fs = [f for f in attrs.fields(type(node)) if f.init and f.name != 'data_type']
            for f in fs:
                v = getattr(node, f.name)
                if node.but(**{f.name: v}) is not node:
                    ck.counterexample(f'but:identity-same-value:{type(node).__name__}.{f.name}', f'but({f.name}=same) of «{node}» is not the same object', {'kind': 'but', 'text': str(node)})
                    bad += 1
            # change: wrap in a changed data_type where possible, or swap a child for an equal-but-distinct copy
            if fs:
                f = fs[0]
                v = getattr(node, f.name)
                clone = rw.rebuild(v) if hasattr(v, 'metadata') else (tuple(rw.rebuild(x) for x in v) if isinstance(v, tuple) else None)
                if clone is not None and (clone is not v):
                    new = node.but(**{f.name: clone})
                    fresh = rw.rebuild(node)
                    if new is node or new != fresh or hash(new) != hash(fresh):
                        ck.counterexample(f'but:changed-copy:{type(node).__name__}', f'but({f.name}=equal copy) of «{node}»: not a new object equal to a fresh construction', {'kind': 'but', 'text': str(node)})
                        bad += 1
                    elif new.metadata is node.metadata or new.metadata != node.metadata:
                        ck.counterexample(f'but:metadata:{type(node).__name__}', f'but() copy of «{node}» shares or loses the metadata', {'kind': 'but', 'text': str(node)})
                        bad += 1
            # cast(): a narrowed copy is a NEW object equal to but(data_type=...) whose metadata dict is its own
            from hpl.types import DataType
            for t in (DataType.NUMBER, DataType.BOOL, DataType.STRING, DataType.PRIMITIVE):
                try:
                    c = node.cast(t)
                except TypeError:
                    continue
                if c is node:
                    continue
                if c.metadata is node.metadata:
                    ck.counterexample(f'cast:metadata-shared:{type(node).__name__}', f'«{node}».cast({t!r}) returns a copy that SHARES the metadata dict of the original (annotating one annotates the other)', {'kind': 'but', 'text': str(node)})
                    bad += 1
                    break
                if c.metadata != node.metadata:
                    ck.counterexample(f'cast:metadata-lost:{type(node).__name__}', f'«{node}».cast({t!r}) returns a copy without the metadata of the original', {'kind': 'but', 'text': str(node)})
                    bad += 1
                    break
            # equality and hashing ignore metadata (NaN literals are unequal to their own copies: not a metadata matter, see C06)
            if 'nan' in repr(node).lower():
                continue
            other = rw.rebuild(node)
            other.metadata['zzz'] = 1
            if other != node or hash(other) != hash(node):
                ck.counterexample(f'eq-hash-metadata:{type(node).__name__}', f'equality/hash of «{node}» depends on metadata', {'kind': 'but', 'text': str(node)})
                bad += 1
    ck.obligation(bad == 0)
    ck.engine('but-contract', nodes=n, violations=bad)


def quantifier_but_part(ck: Check):
    """copy-with-changes of a quantifier: the untouched condition subtree is shared with the original and must not be narrowed"""
    from hpl.rewrite import replace_var_with_this
    bad = 0
    n = 0
    cases = [(('q', 'forall', 'v', ('f', 'xs'), ('bin', '=', ('var', 'v'), ('f', 'z'))), ('set', ('lit', 1), ('lit', 2))),
             (('q', 'exists', 'v', ('set', ('var', 'y'), ('lit', 1)), ('bin', '=', ('var', 'v'), ('f', 'z'))), ('set', ('lit', 5), ('lit', 1))),
             (('q', 'forall', 'v', ('set', ('f', 'a'), ('f', 'b')), ('bin', 'in', ('var', 'v'), ('f', 'ws'))), ('range', ('lit', 0), ('lit', 3), False, False)),
             (('q', 'forall', 'v', ('f', 'xs'), ('bin', '!=', ('var', 'v'), ('fa', ('var', 'A'), 'w'))), ('set', ('str', 'a'))),
             (('q', 'forall', 'v', ('f', 'xs'), ('bin', 'or', ('var', 'v'), ('f', 'p'))), ('f', 'ps'))]
    for qspec, newdom in cases:
        for wrap in (lambda s_: s_, lambda s_: ('bin', 'and', s_, ('f', 'p')), lambda s_: ('not', s_)):
            root = gen.build(wrap(qspec))
            quant = [x for x in nodes_of(root) if type(x).__name__ == 'HplQuantifier'][0]
            before = snapshot(root)
            n += 1
            try:
                quant.but(domain=gen.build(newdom))
            except Exception:
                pass
            d = diff(before, snapshot(root))
            if d:
                bad += 1
                ck.counterexample(f'mutates:but(domain=...):{type(quant).__name__}', f'but(domain={gen.render(newdom)}) on the quantifier of «{root}» changed the original tree: {d}', {'kind': 'qbut', 'text': str(root)})
    # variable replaced inside a domain only
    for spec in (('q', 'forall', 'v', ('set', ('var', 'y'), ('lit', 1)), ('bin', '=', ('var', 'v'), ('f', 'z'))),):
        from hpl.ast.predicates import HplPredicateExpression
        root = HplPredicateExpression(gen.build(spec))
        before = snapshot(root)
        n += 1
        try:
            root.replace_var_reference('y', gen.build(('lit', 5)))
        except Exception:
            pass
        d = diff(before, snapshot(root))
        if d:
            bad += 1
            ck.counterexample('mutates:replace_var_reference:quantifier-domain', f'replace_var_reference on «{root}» changed the original tree: {d}', {'kind': 'qbut', 'text': str(root)})
    ck.obligation(bad == 0)
    ck.engine('quantifier-copies', cases=n, violations=bad)


def property_part(ck: Check):
    """property-level calls: canonical_form, type_check_references, str, but on the C11 grid"""
    from hpl.rewrite import canonical_form
    from vf.harness import c11_sx
    sc = schema()
    topics = {f'{p}{i}': sc for p in 'aqtb' for i in range(4)}
    n = bad = 0
    for si, pi, deco in itertools.product(range(4), range(5), range(3)):
        for w in ((1, 1, 1, 1), (2, 1, 2, 2), (1, 2, 1, 3)):
            spec = c11_sx.mk(si, pi, *w, deco, 0.5, 'T')
            if props.property_verdict(spec) is not None:
                continue
            def all_nodes_public(p):
                for nd in nodes_of(p):
                    touch_all_public(nd)
            for name, api in (('canonical_form', canonical_form), ('str', str), ('type_check_references', lambda p: p.type_check_references(topics)),
                              ('but(pattern=same)', lambda p: p.but(pattern=p.pattern)), ('is_fully_typed', lambda p: p.is_fully_typed()), ('hash', hash),
                              ('all-public-queries-on-every-node', all_nodes_public), ('uid', lambda p: p.uid), ('events', lambda p: list(p.events()))):
                prop = props.build_property(spec)
                before = snapshot(prop)
                call(api, prop)
                n += 1
                d = diff(before, snapshot(prop))
                if d:
                    bad += 1
                    ck.counterexample(f'mutates:{name}:property', f'{name} on «{props.render_property(spec)}» changed the tree: {d}', {'kind': 'property', 'text': props.render_property(spec), 'api': name})
    ck.obligation(bad == 0)
    ck.engine('property-snapshots', calls=n, violations=bad)


def main() -> int:
    ck = Check('C16', 'other', 'SF: constructors, parser callbacks, cast() and but() executed on children whose stored type set is a symbolic 7-bit term (all feasible paths); z3 decides that '
               'the children handed in keep their type sets for ALL type sets. Plus deep-snapshot exploration of every API call on every subtree and of call sequences up to length 3.')
    ck.functions('hpl.ast.expressions.HplExpression._type_check/cast', 'hpl.ast.expressions.* constructors and validators', 'hpl.parser.PropertyTransformer callbacks',
                 'hpl.ast.base.HplAstObject.but', 'hpl.rewrite.* (public functions)', 'hpl.ast.predicates.*.negate/join', 'hpl.ast.properties.HplProperty.type_check_references')
    sf_part(ck)
    sfam = families.simplify_families('quick')
    bfam = families.boolean_families('quick', alias_heavy=True)
    step = 90 if ck.tier == 'quick' else 8
    specs = families.slot_family()[:: (3 if ck.tier == 'quick' else 1)] + families.call_shapes()[:: (9 if ck.tier == 'quick' else 2)]
    for fam in (sfam, bfam):
        for k, v in fam.items():
            specs += v[::step] if len(v) > 400 else v[:: max(1, step // 8)]
    specs = families.uniq(specs)
    items = []
    for i, s in enumerate(specs):
        items.append((s, False, ck.seed + i))
        if i % 2 == 0:
            items.append((s, True, ck.seed + i))
    t0 = time.time()
    results = [x for c in par.pmap_chunks(worker, items, 20) for x in c]
    calls = 0
    for item, r in results:
        calls += r['calls']
        if r.get('error'):
            ck.undecided(f'harness exception: {r["error"]}')
        ck.obligation(not r['findings'])
        for sig, what, text, api in r['findings']:
            ck.counterexample(sig, what, {'kind': 'snapshot', 'spec': item[0], 'as_predicate': item[1], 'api': api, 'text': text})
    ck.engine('snapshots', trees=len(items), api_calls=calls, wall_s=round(time.time() - t0, 1))
    but_contract(ck, specs[:: (6 if ck.tier == 'quick' else 2)])
    quantifier_but_part(ck)
    property_part(ck)
    ck.sample({'tree': gen.render(specs[3]), 'apis': [a for a, _ in expr_apis()]})
    ck.sample({'tree': gen.render(specs[len(specs) // 2])})
    ck.bound('SF', 'all 7-bit type sets of every child, for 113 construction forms (every operator, set/range, accesses, quantifiers, 27 functions; constructor and parser-callback routes), cast() with a symbolic target')
    ck.bound('snapshots', f'{len(items)} trees x every API x every subtree; all pairs and 40 seeded triples of API calls on the root; properties: C11 grid x 6 calls')
    ck.coverage['evaluations'] = calls
    ck.coverage['distinct_nontrivial'] = len(items)
    ck.coverage['rule'] = 'one evaluation = one API call followed by a deep snapshot comparison; non-trivial = distinct tree'
    ck.outside('trees deeper than the families; sequences longer than 3')
    return ck.finish()


def replay(data) -> int:
    print('recorded:', data.get('what'))
    if data.get('kind') == 'sf-pure':
        for f in symtypes.forms():
            if f.name == data['form']:
                print('re-run  :', symtypes.concrete_replay(f, data['masks'], 'pure'))
    elif data.get('kind') == 'snapshot':
        print('re-run  :', explore_tree((rw.tuplify(data['spec']), data['as_predicate'], 0))['findings'][:3])
    return 1
