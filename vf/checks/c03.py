"""C03 Every AST the library hands out is well-typed.

(a) SF: for every construction form (operators, sets, ranges, accesses, quantifiers, 27 functions; constructor and parser-callback
    route) the 'exact' lemma is decided for ALL child type sets: the result carries the declared type and every stored child carries
    exactly child /\\ parameter type (/\\ sibling for unified operands) — hence inside the parameter type.
(b) the invariant list of the statement is checked by an independent walker on every AST returned by the parser entry points and by
    every rewriting function and every composition of two of them, over the enumerated families.
"""
from __future__ import annotations

import time
from typing import Any, Dict, List

from vf import families, gen, par, props, rw, sem, symtypes, typecheck
from vf.common import Check, short


def rewriters():
    from hpl.ast.predicates import HplPredicateExpression
    from hpl.rewrite import refactor_reference, replace_this_with_var, replace_var_with_this, simplify, split_and
    other = lambda: HplPredicateExpression(gen.build(('bin', '<', ('f', 'x'), ('fa', ('var', 'A'), 'y'))))

    def preds_of(xs):
        return [HplPredicateExpression(x) if not getattr(x, 'is_predicate', False) else x for x in xs]

    return [
        ('simplify', lambda p: [simplify(p)]),
        ('split_and', lambda p: preds_of([e for e in split_and(p) if sem.kind(e) != 'HplLiteral'])),
        ('refactor_reference', lambda p: [q for q in refactor_reference(p, 'A')]),
        ('replace_this_with_var', lambda p: [replace_this_with_var(p, 'A')]),
        ('replace_var_with_this', lambda p: [replace_var_with_this(p, 'A')]),
        ('negate', lambda p: [p.negate()]),
        ('join', lambda p: [p.join(other())]),
        ('event-alias', lambda p: [__import__('hpl').ast.HplSimpleEvent.publish('t', alias='A', predicate=p).predicate]),
    ]


def case(item):
    """returns list of (signature, what, replay) findings for one tree"""
    from hpl.ast.predicates import HplPredicateExpression
    from hpl.parser import condition_parser
    spec, depth = item
    found = []
    try:
        e = gen.build(spec)
    except TypeError:
        return ('illtyped', found, 0)
    except Exception as ex:
        return ('illtyped', found, 0)
    text = str(e)
    n = 1
    for v in typecheck.violations(e):
        found.append((f'parse:{v.split("«")[0].strip()[:50]}@{text}', f'parsing «{text}»: {v}', {'kind': 'parse', 'spec': spec, 'text': text}))
    if not (e.data_type.value & 1) or sem.kind(e) == 'HplLiteral':
        return ('expr', found, n)
    try:
        p0 = HplPredicateExpression(gen.build(spec))
    except TypeError:
        return ('expr', found, n)
    for v in typecheck.violations(p0.condition, True):
        found.append((f'predicate:{v.split("«")[0].strip()[:50]}@{text}', f'predicate {{{text}}}: {v}', {'kind': 'parse', 'spec': spec, 'text': text}))
    R = rewriters()
    # expression-level outputs of the rewriting functions (literals included): each must itself be well-typed and boolean
    from hpl.rewrite import refactor_reference, simplify, split_and
    for nm, fn in (('simplify(expr)', lambda c: [simplify(c)]), ('split_and(expr)', lambda c: split_and(c)), ('refactor_reference(expr)', lambda c: list(refactor_reference(c, 'A')))):
        try:
            outs = fn(HplPredicateExpression(gen.build(spec)).condition)
        except Exception:
            continue
        for o in outs:
            n += 1
            for v in typecheck.violations(o, True):
                found.append((f'{nm}:{v.split("«")[0].strip()[:50]}@{text}', f'{nm} on «{text}» returned «{o}»: {v}', {'kind': 'rewrite', 'spec': spec, 'chain': [nm], 'text': text}))

    def check_pred(q, chain):
        if q.is_vacuous:
            return
        for v in typecheck.violations(q.condition, True):
            found.append((f'{"+".join(chain)}:{v.split("«")[0].strip()[:50]}@{text}', f'{" then ".join(chain)} on {{{text}}} returned {q}: {v}', {'kind': 'rewrite', 'spec': spec, 'chain': chain, 'text': text}))

    for n1, f1 in R:
        try:
            outs1 = f1(HplPredicateExpression(gen.build(spec)))
        except Exception:
            continue  # totality is C14's obligation
        for q in outs1:
            n += 1
            check_pred(q, [n1])
            if depth < 2 or q.is_vacuous:
                continue
            for n2, f2 in R:
                try:
                    outs2 = f2(q)
                except Exception:
                    continue
                for q2 in outs2:
                    n += 1
                    check_pred(q2, [n1, n2])
    return ('pred', found[:6], n)


def worker(chunk):
    out = []
    for item in chunk:
        try:
            out.append((item, case(item)))
        except Exception as e:
            out.append((item, ('harness', [(f'harness', f'{type(e).__name__}: {short(e, 200)}', {})], 0)))
    return out


def main() -> int:
    ck = Check('C03', 'other', 'SF: the real constructors/parser callbacks run on children with symbolic 7-bit type sets; z3 decides for ALL type sets that results carry the declared '
               'type and stored children carry exactly child /\\ parameter. Independent invariant walker over every AST returned by parsing and by compositions (depth <= 2) of the rewriting functions.')
    ck.functions('hpl.ast.expressions.* constructors, converters and validators', 'hpl.ast.expressions.HplExpression.cast/_type_check', 'hpl.types.DataType.cast',
                 'hpl.ast.predicates._cast_expr_to_bool/HplPredicateExpression._check_expression', 'hpl.parser.PropertyTransformer callbacks', 'hpl.rewrite.* (outputs)')
    t0 = time.time()
    forms = symtypes.forms()
    paths = 0
    for f in forms:
        r = symtypes.run_form(f, lemmas=('exact',))
        paths += r.paths
        ck.query('unsat', r.solver_s, r.queries)
        if r.unknown:
            ck.obligation(None)
            ck.undecided(f'SF {f.name}: z3 unknown')
        elif 'exact' in r.failures or 'only-TypeError' in r.failures:
            ck.obligation(False)
            lem = 'exact' if 'exact' in r.failures else 'only-TypeError'
            masks = r.failures[lem]
            what = symtypes.concrete_replay(f, masks, lem)
            if what is None:
                ck.undecided(f'SF counterexample for {f.name} ({lem}, type sets {masks}) does not replay on real DataType values')
            else:
                ck.counterexample(f'{lem}:{f.name}', what, {'kind': 'sf', 'form': f.name, 'masks': masks, 'lemma': lem})
        else:
            ck.obligation(True)
    ck.engine('SF', forms=len(forms), paths=paths, wall_s=round(time.time() - t0, 1))
    sfam = families.simplify_families(ck.tier)
    bfam = families.boolean_families(ck.tier, alias_heavy=True)
    step = 12 if ck.tier == 'quick' else 3
    specs = families.slot_family() + families.call_shapes()
    for fam in (sfam, bfam):
        for k, v in fam.items():
            specs += v[::step] if len(v) > 300 else v
    specs += families.random_specs(ck.seed + 3, 600 if ck.tier == 'quick' else 6000, 4)
    specs += [s_ for s_, _clash in families.reuse_family() + families.reuse_family_quantified()[::3]]  # accepted or not, whatever is handed out must share a type per reference
    specs = families.uniq(specs)
    items = [(s, 2) for i, s in enumerate(specs)]
    t0 = time.time()
    results = [x for c in par.pmap_chunks(worker, items, 40) for x in c]
    asts = 0
    trees = 0
    for item, (kind, found, n) in results:
        asts += n
        if kind == 'harness':
            ck.undecided(found[0][1])
            continue
        if kind == 'illtyped':
            continue
        trees += 1
        ck.obligation(not found)
        for sig, what, rep in found:
            ck.counterexample(sig, what, rep)
    # property level: predicates inside canonical_form outputs
    from hpl.rewrite import canonical_form
    from vf.harness import c11_sx
    nprops = 0
    for si in range(4):
        for pi in range(5):
            for deco in range(3):
                spec = c11_sx.mk(si, pi, 2, 1, 2, 2, deco, 1.0, 'T')
                if props.property_verdict(spec) is not None:
                    continue
                for q in canonical_form(props.build_property(spec)):
                    nprops += 1
                    for ev in (q.scope.activator, q.scope.terminator, q.pattern.trigger, q.pattern.behaviour):
                        for e in ([] if ev is None else list(ev.simple_events())):
                            if not e.predicate.is_vacuous:
                                for v in typecheck.violations(e.predicate.condition, True):
                                    ck.counterexample(f'canonical_form:{v[:40]}', f'canonical_form output «{q}»: {v}', {'kind': 'canonical', 'text': str(q)})
    ck.engine('walker', trees=trees, asts_checked=asts + nprops, wall_s=round(time.time() - t0, 1))
    ck.sample({'tree': gen.render(specs[5]), 'compositions': [a for a, _ in rewriters()]})
    ck.sample({'form': forms[20].name, 'lemma': 'exact: result type declared; stored child = child & parameter (& sibling)'})
    ck.bound('SF', f'all 7-bit type sets of every child for {len(forms)} construction forms')
    ck.bound('walker', f'{trees} trees (families of C08/C09 + one tree per node kind x child slot + every function/argument shape + seeded random), every rewriting function, all compositions of two on a third of the trees' if ck.tier == 'quick' else f'{trees} trees, all compositions of two')
    ck.coverage['evaluations'] = asts + nprops
    ck.coverage['distinct_nontrivial'] = trees
    ck.coverage['rule'] = 'one evaluation = one AST handed out (parse result, rewrite output, or output of a composition) walked against the invariant list; non-trivial = distinct well-typed input tree'
    ck.assume('"the bound variable is used only at the element type of its domain" is read as compatibility (non-empty intersection), which is what the library enforces')
    ck.outside('compositions deeper than 2; trees deeper than the families')
    return ck.finish()


def replay(data) -> int:
    print('recorded:', data.get('what'))
    if data.get('kind') in ('parse', 'rewrite'):
        print('re-run  :', case((rw.tuplify(data['spec']), 2))[1][:3])
    return 1
