"""C02 A property is accepted iff every alias reference is bound earlier, once — SP engine.

Shapes (scope kind x pattern kind x disjunction widths x which alternatives carry an alias / a reference and where the
reference sits) are enumerated; ALL names in a shape — aliases, referenced names, quantified variables, channel names of
a disjunction — are symbolic, so the solver covers every coincidence pattern between them (reference to the event's own
alias, to an earlier / later / parallel alias, duplicate alias, duplicate channel, variable equal to an alias, variable
in its own domain, re-bound variable, unused variable)."""
from __future__ import annotations

import itertools
import time
from typing import Any, Dict, List, Optional, Tuple

import z3

from vf import par, props, sp
from vf.common import Check, short

X = ('f', 'x')
XS = ('f', 'xs')
REF_KINDS = ('direct', 'qbody', 'qdomain', 'qunused', 'nested', 'qplain', 'qfree', 'qfree2', 'call4', 'qcall4', 'idxfield', 'nested2')
ROUTES = ('callbacks', 'ctor', 'but_pattern', 'but_both', 'but_event')


def pred_for(kind: str, r, v, w):
    if kind == 'direct':
        return ('bin', '>', X, ('fa', ('var', r), 'x'))
    if kind == 'qbody':
        return ('q', 'forall', v, XS, ('bin', '>', ('var', v), ('fa', ('var', r), 'x')))
    if kind == 'qdomain':
        return ('q', 'exists', v, ('fa', ('var', r), 'xs'), ('bin', '>', ('var', v), ('lit', 0)))
    if kind == 'qunused':
        return ('q', 'forall', v, XS, ('bin', '>', X, ('fa', ('var', r), 'x')))
    if kind == 'nested':
        return ('q', 'forall', v, XS, ('q', 'exists', w, ('f', 'ys'), ('bin', '>', ('var', w), ('bin', '+', ('var', v), ('fa', ('var', r), 'x')))))
    if kind == 'qfree':  # a quantifier binding v NEXT TO a free reference @r.x outside it (r may coincide with v: still free)
        return ('bin', 'and', ('q', 'forall', v, XS, ('bin', '>', ('var', v), ('lit', 0))), ('bin', '>', X, ('fa', ('var', r), 'x')))
    if kind == 'qfree2':  # same, with the free reference used at the variable's own type (no type clash when r coincides with v)
        return ('bin', 'and', ('q', 'forall', v, XS, ('bin', '>', ('var', v), ('lit', 0))), ('bin', '>', X, ('var', r)))
    if kind == 'call4':  # the reference is the 4th argument of a variadic call (API-built: the grammar has one-argument calls only)
        return ('bin', '>', ('call', 'max', X, ('lit', 1), ('lit', 2), ('fa', ('var', r), 'x')), ('lit', 0))
    if kind == 'qcall4':  # the quantified variable's only use is the 4th argument
        return ('bin', 'and', ('q', 'forall', v, XS, ('bin', '>', ('call', 'min', X, ('lit', 1), ('lit', 2), ('var', v)), ('lit', 0))), ('bin', '>', X, ('fa', ('var', r), 'x')))
    if kind == 'idxfield':  # the reference sits inside an index that is FOLLOWED by a field access (not the last accessor of its chain)
        return ('bin', '>', ('fa', ('idx', ('f', 'ms'), ('fa', ('var', r), 'i')), 'z'), ('lit', 0))
    if kind == 'nested2':  # a nested quantifier that comes AFTER a use of the outer variable (w may coincide with v: must be rejected)
        return ('q', 'forall', v, XS, ('bin', 'and', ('bin', '>', ('var', v), ('fa', ('var', r), 'x')), ('q', 'exists', w, ('f', 'ys'), ('bin', '<', ('var', w), ('lit', 3)))))
    if kind == 'qplain':
        return ('q', 'forall', v, XS, ('bin', '>', ('var', v), ('lit', 0)))
    raise ValueError(kind)


def shapes(tier: str):
    thorough = tier == 'thorough'
    for scope, pattern in itertools.product(props.SCOPES, props.PATTERNS):
        pos = []
        if scope in ('after', 'after_until'):
            pos.append('activator')
        if scope in ('until', 'after_until'):
            pos.append('terminator')
        if pattern in ('response', 'prevention', 'requirement'):
            pos.append('trigger')
        pos.append('behaviour')
        wcfgs = [tuple(1 for _ in pos)]
        for i in range(len(pos)):
            wcfgs.append(tuple(2 if j == i else 1 for j in range(len(pos))))
        if thorough:
            for i in range(len(pos)):
                wcfgs.append(tuple(3 if j == i else 1 for j in range(len(pos))))
                for i2 in range(i + 1, len(pos)):
                    wcfgs.append(tuple(2 if j in (i, i2) else 1 for j in range(len(pos))))
        if not thorough:
            # width 3 (right-nested disjunction of three): aliases on the wide position only, direct references
            for i in range(len(pos)):
                wc = tuple(3 if j == i else 1 for j in range(len(pos)))
                slots = [(p, k) for p, w in zip(pos, wc) for k in range(w)]
                wide = [si for si, (p, k) in enumerate(slots) if p == pos[i]]
                for sa in [c for n in (1, 2) for c in itertools.combinations(wide, n)]:
                    for sr in [()] + [(si,) for si in range(len(slots))]:
                        yield {'scope': scope, 'pattern': pattern, 'pos': pos, 'widths': wc, 'slots': slots, 'alias_slots': sa, 'ref_slots': sr, 'kinds': ('direct',) * len(sr)}
        for wc in wcfgs:
            slots = [(p, k) for p, w in zip(pos, wc) for k in range(w)]
            sub_a = [c for n in range(0, 3) for c in itertools.combinations(range(len(slots)), n)]
            sub_r = [c for n in range(0, 3 if thorough else 2) for c in itertools.combinations(range(len(slots)), n)]
            for sa in sub_a:
                for sr in sub_r:
                    kinds_list = itertools.product(REF_KINDS if len(sr) < 2 else ('direct', 'qbody', 'qdomain', 'qfree2'), repeat=len(sr))
                    for kinds in kinds_list:
                        yield {'scope': scope, 'pattern': pattern, 'pos': pos, 'widths': wc, 'slots': slots, 'alias_slots': sa, 'ref_slots': sr, 'kinds': kinds}


def instantiate(shape, nm: Dict[str, Any]) -> Dict[str, Any]:
    """shape + name assignment (symbolic SymNames or concrete strs) -> prop spec"""
    p: Dict[str, Any] = {'scope': shape['scope'], 'pattern': shape['pattern'], 'activator': None, 'terminator': None, 'trigger': None,
                         'max_time': None, 'meta': None}
    slots = shape['slots']
    by_pos: Dict[str, List[Any]] = {}
    for si, (pos, k) in enumerate(slots):
        width = shape['widths'][shape['pos'].index(pos)]
        chan = nm[f'c_{pos}_{k}'] if width > 1 else f'{pos[:1]}{k}'
        alias = nm[f'a{shape["alias_slots"].index(si)}'] if si in shape['alias_slots'] else None
        pred = None
        if si in shape['ref_slots']:
            j = shape['ref_slots'].index(si)
            pred = pred_for(shape['kinds'][j], nm[f'r{j}'], nm[f'v{j}'], nm[f'w{j}'])
        by_pos.setdefault(pos, []).append(('ev', chan, alias, pred))
    for pos, evs in by_pos.items():
        p[pos] = evs[0] if len(evs) == 1 else ('or',) + tuple(evs)
    return p


def name_keys(shape) -> List[str]:
    keys = [f'a{i}' for i in range(len(shape['alias_slots']))]
    for j in range(len(shape['ref_slots'])):
        keys += [f'r{j}', f'v{j}', f'w{j}']
    for pos, w in zip(shape['pos'], shape['widths']):
        if w > 1:
            keys += [f'c_{pos}_{k}' for k in range(w)]
    return keys


def attempt(spec, route: str) -> Optional[str]:
    """None = accepted, else the exception class name"""
    from hpl.ast import HplProperty
    from hpl.errors import HplSanityError
    T = props.gen.transformer()
    try:
        if route == 'callbacks':
            props.build_property(spec)
            return None
        scope = props.build_scope(spec)
        pattern = props.build_pattern(spec)
        if route == 'ctor':
            HplProperty(scope, pattern)
            return None
        plain = T.absence(T.event('zz', None, None), None)
        if route == 'but_event':
            # a disjunction that has already answered its queries, copied with one alternative changed, then used in a property
            from hpl.ast import HplEventDisjunction
            done = False
            for pos in ('behaviour', 'trigger', 'activator', 'terminator'):
                ev = spec.get(pos)
                if ev is not None and ev[0] == 'or':
                    final = props.build_event(ev)
                    stub = HplEventDisjunction(T.event('stub1', None, None), final.event2)
                    stub.aliases(), stub.external_references()
                    HplProperty(T.global_scope([]), T.absence(stub, None)) if not stub.external_references() else None
                    copy = stub.but(event1=final.event1)
                    spec2 = dict(spec)
                    sc = props.build_scope(spec)
                    pt = props.build_pattern(spec)
                    if pos in ('behaviour', 'trigger'):
                        pt = pt.but(**{pos: copy})
                    else:
                        sc = sc.but(**{pos: copy})
                    HplProperty(sc, pt)
                    done = True
                    break
            if not done:
                HplProperty(scope, pattern)
            return None
        if route == 'but_pattern':
            base = HplProperty(scope, plain)
            base.but(pattern=pattern)
            return None
        base = HplProperty(T.global_scope([]), plain)
        base.but(scope=scope, pattern=pattern)
        return None
    except HplSanityError:
        return 'HplSanityError'
    except TypeError:
        return 'TypeError'  # a coincidence of names can make a predicate ill-typed (@v.x on a quantified variable): not judged


def agree(want: Optional[str], got: Optional[str]) -> bool:
    if got == 'TypeError':
        return True
    return (want is None and got is None) or (want is not None and got == 'HplSanityError')


def run_shape(item) -> Dict[str, Any]:
    shape, route = item
    keys = name_keys(shape)
    syms = {k: sp.SymName(z3.Int(k), k) for k in keys}
    spec = instantiate(shape, syms)

    def fn():
        want = props.property_verdict(spec)
        got = attempt(spec, route)
        return (want, got)

    res: Dict[str, Any] = {'paths': 0, 'bad': [], 'mismatch': [], 'queries': 0, 'solver_s': 0.0}
    paths, ctx = sp.explore(fn)
    res['paths'] = len(paths)
    res['queries'] = ctx.queries
    res['solver_s'] = ctx.solver_s
    for pc, (kind, val) in paths:
        m = sp.model_of(pc)
        if m is None:
            res['mismatch'].append('path condition unsatisfiable at the end of a path')
            continue
        conc = sp.concretise(m, list(syms.values()))
        cspec = instantiate(shape, conc)
        # plain-Python re-run on the real code with real str names (replay + translator validation)
        try:
            cwant = props.property_verdict(cspec)
            cgot = attempt(cspec, route)
            cout = ('ret', (cwant, cgot))
        except Exception as e:
            cout = ('raise', type(e).__name__)
        sym_out = (kind, val if kind == 'raise' else (None if val[0] is None else 'reject', val[1]))
        con_out = (cout[0], cout[1] if cout[0] == 'raise' else (None if cout[1][0] is None else 'reject', cout[1][1]))
        if sym_out != con_out:
            res['mismatch'].append(f'symbolic path {sym_out} vs concrete re-run {con_out} for names {conc} in {props.render_property(cspec)}')
            continue
        if kind == 'raise':
            res['bad'].append((f'{val}', props.render_property(cspec), conc, 'unexpected exception class instead of a sanity error'))
        elif not agree(val[0], val[1]):
            why = f'must be rejected ({val[0]}) but was accepted' if val[0] else f'must be accepted but raised {val[1]}'
            res['bad'].append(('accept-reject', props.render_property(cspec), conc, why))
    return res


def worker(chunk):
    out = []
    for item in chunk:
        try:
            out.append((item, run_shape(item)))
        except Exception as e:
            out.append((item, {'paths': 0, 'bad': [], 'mismatch': [f'harness exception {type(e).__name__}: {short(e, 200)}'], 'queries': 0, 'solver_s': 0.0}))
    return out


def classify(shape, text: str, why: str) -> str:
    return f'{"false-accept" if "was accepted" in why else "false-reject"}@{text}'


def main() -> int:
    ck = Check('C02', 'other', 'the real sanity checking (HplProperty/HplSimpleEvent/HplEventDisjunction/HplQuantifier constructors, but()) executed on '
               'symbolic NAMES (z3-backed str proxies, all feasible decision sequences) for every enumerated shape; outcome compared with an oracle written from the statement')
    ck.functions('hpl.ast.properties.HplProperty.__attrs_post_init__/sanity_check/_check_*', 'hpl.ast.events.HplSimpleEvent.__attrs_post_init__/external_references',
                 'hpl.ast.events.HplEventDisjunction.__attrs_post_init__/aliases/external_references', 'hpl.ast.expressions.HplQuantifier._check_domain/_check_condition_is_bool/external_references',
                 'hpl.ast.base.HplAstObject.but', 'hpl.parser.PropertyTransformer.hpl_property/event/event_disjunction/quantification')
    items = []
    two = 0
    for i, sh in enumerate(shapes(ck.tier)):
        if ck.tier == 'thorough' and len(sh['ref_slots']) == 2:
            two += 1
            if (two + ck.seed) % 7:
                continue  # every 7th shape with two referencing alternatives (they are three quarters of the space and twice as costly)
        if ck.tier == 'thorough':
            items.append((sh, ROUTES[i % 5]))
            if i % 5 == 0:
                items.append((sh, ROUTES[(i + 1) % 5]))
        else:
            items.append((sh, ROUTES[i % 5]))
    t0 = time.time()
    results = [x for c in par.pmap_chunks(worker, items, 100) for x in c]
    paths = 0
    nshapes = 0
    for (shape, route), r in results:
        nshapes += 1
        paths += r['paths']
        ck.query('unsat', r['solver_s'], r['queries'])
        ok = not r['bad'] and not r['mismatch']
        ck.obligation(ok if not r['mismatch'] else None)
        for mm in r['mismatch']:
            ck.undecided(f'proxy model disagrees with the real code: {mm}')
        for kind, text, conc, why in r['bad']:
            sig = classify(shape, text, why) if kind == 'accept-reject' else f'exception:{kind}@{text}'
            ck.counterexample(sig, f'[{route}] «{text}» {why}', {'kind': 'property', 'text': text, 'route': route, 'names': conc, 'why': why})
        if nshapes % 997 == 0:
            ck.sample({'shape': {k: shape[k] for k in ('scope', 'pattern', 'widths', 'alias_slots', 'ref_slots', 'kinds')}, 'route': route, 'paths': r['paths']})
    ck.engine('SP', shapes=nshapes, paths=paths, wall_s=round(time.time() - t0, 1))
    ck.bound('shapes', f'{nshapes}: 4 scopes x 5 patterns x (one position of width 2' + (', or 3, or two of width 2' if ck.tier == 'thorough' else '') + ') x <= 2 aliased alternatives x <= '
             + ('2' if ck.tier == 'thorough' else '1') + ' referencing alternatives x 12 reference placements (reference inside an index followed by a field access, nested quantifier after a use of the outer variable, direct, quantifier body, quantifier domain, unused variable, nested quantifier, plain quantifier, quantifier next to a free reference, index-only reference, 4th argument of a variadic call, the same under a quantifier); one position of width 3 with aliases on its alternatives x 5 construction routes (parser callbacks, public constructors, but() on patterns, but() on both, but() on the alternatives of a disjunction that has already been sanity-checked)')
    ck.bound('names', 'ALL alias / reference / variable / channel names symbolic: every equality pattern between them (unbounded name space)')
    ck.coverage['evaluations'] = paths
    ck.coverage['distinct_nontrivial'] = nshapes
    ck.coverage['rule'] = 'one evaluation = one feasible path (name-coincidence pattern) of one shape through the real constructors; non-trivial = distinct shape'
    ck.assume('the proxy str subclass behaves like str for ==, !=, in, set/dict operations: validated on every path by a concrete re-run with real str names')
    ck.outside('more than two aliased / referencing alternatives at once; disjunction width > 3; references inside set elements or index expressions (C15 covers the queries)')
    return ck.finish()


def replay(data) -> int:
    from hpl.parser import property_parser
    print('recorded:', data.get('what'))
    try:
        property_parser().parse(data['text'])
        print('real parser: accepted')
    except Exception as e:
        print('real parser:', type(e).__name__, e)
    return 1
