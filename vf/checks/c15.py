"""C15 Reference queries report exactly the references that occur — SP engine (symbolic names)."""
from __future__ import annotations

import itertools
import time
from typing import Any, Dict, List

import z3

from vf import gen, par, props, sem, sp
from vf.common import Check, short

X = ('f', 'x')
XS = ('f', 'xs')


def L(v):
    return ('lit', v)


def leaves(n):
    """leaf forms carrying a reference to name n / to the current message / to nothing"""
    return [('num', ('fa', ('var', n), 'x')), ('num', ('idx', ('fa', ('var', n), 'xs'), L(0))), ('num', X), ('num', L(1)),
            ('num', ('idx', XS, ('fa', ('var', n), 'i'))), ('num', ('fa', ('fa', ('var', n), 'm'), 'x')),
            # chains that mix roots: another message at the base, the current message only inside an index (and the reverse), a field outermost
            ('num', ('fa', ('idx', ('fa', ('var', n), 'ms'), ('f', 'i')), 'z')), ('num', ('fa', ('idx', ('f', 'ms'), ('fa', ('var', n), 'k')), 'z')),
            ('num', ('idx', ('fa', ('idx', ('fa', ('fa', ('var', n), 'a'), 'ms'), L(0)), 'zs'), ('idx', XS, L(1))))]


def contexts(leaf):
    """one boolean tree per (node kind x child slot) with `leaf` (a number-typed spec) in that slot"""
    r = leaf
    Y = ('f', 'y')
    V = 'QV'  # replaced by a symbolic variable name
    v = ('var', V)
    return [
        ('bin', '<', r, L(1)), ('bin', '<', L(1), r), ('bin', '=', ('neg', r), Y), ('bin', '=', ('bin', '+', r, Y), L(0)), ('bin', '=', ('bin', '**', Y, r), L(0)),
        ('bin', 'in', r, ('set', L(1), L(2))), ('bin', 'in', Y, ('set', r, L(2))), ('bin', 'in', Y, ('set', L(2), L(3), r)),
        ('bin', 'in', Y, ('range', r, L(5), False, False)), ('bin', 'in', Y, ('range', L(0), r, True, True)),
        ('bin', '<', ('idx', ('f', 'ys'), r), L(1)), ('bin', '<', ('call', 'abs', r), L(3)), ('bin', '<', ('call', 'max', Y, r), L(3)),
        ('bin', '<', ('call', 'max', Y, L(1), r), L(3)), ('bin', '<', ('call', 'min', Y, L(1), L(2), r), L(3)), ('bin', '<', ('call', 'gcd', Y, L(4), L(6), L(8), r), L(3)), ('bin', '<', ('call', 'sum', ('set', r, Y)), L(3)), ('bin', '<', ('call', 'len', ('range', r, Y, False, False)), L(3)),
        ('not', ('bin', '<', r, L(1))), ('bin', 'implies', ('bin', '<', r, L(1)), ('f', 'p')), ('bin', 'and', ('f', 'p'), ('bin', 'or', ('f', 'q'), ('bin', '<', r, L(1)))),
        ('q', 'forall', V, ('set', r, L(1)), ('bin', '<', v, L(3))), ('q', 'exists', V, ('range', L(0), r, False, False), ('bin', '<', v, L(3))),
        ('q', 'forall', V, ('f', 'ys'), ('bin', '<', v, r)), ('q', 'exists', V, ('f', 'ys'), ('bin', 'and', ('bin', '<', v, L(1)), ('bin', '>', r, L(0)))),
        ('not', ('q', 'forall', V, ('f', 'ys'), ('bin', 'or', ('bin', '<', v, L(1)), ('bin', '>', r, v)))),
        ('q', 'forall', V, ('f', 'ys'), ('q', 'exists', 'QW', ('f', 'zs'), ('bin', '<', ('bin', '+', v, ('var', 'QW')), r))),
    ]


def subst(spec, m: Dict[str, Any]):
    if isinstance(spec, tuple):
        return tuple(subst(s, m) for s in spec)
    if isinstance(spec, str) and spec in m:
        return m[spec]
    return spec


# ---- oracles on specs (written from the statement) -------------------------------------------------------------
def o_mentions(s, a) -> bool:
    if s[0] == 'var':
        return s[1] == a
    return any(o_mentions(t, a) for t in s[1:] if isinstance(t, tuple))


def o_defines(s, a) -> bool:
    if s[0] == 'q' and s[2] == a:
        return True
    return any(o_defines(t, a) for t in s[1:] if isinstance(t, tuple))


def o_this(s) -> bool:
    if s[0] == 'f':
        return True
    return any(o_this(t) for t in s[1:] if isinstance(t, tuple))


def setify(it):
    out = []
    for x in it:
        if not any(x == y for y in out):
            out.append(x)
    return out


def same_set(a, b) -> bool:
    a, b = setify(a), setify(b)
    return all(any(x == y for y in b) for x in a) and all(any(x == y for y in a) for x in b)


def check_tree(spec, probe, alias, level: str):
    """returns None or a description of the first disagreement"""
    from hpl.ast import HplSimpleEvent, HplEventDisjunction
    from hpl.ast.predicates import HplPredicateExpression
    e = gen.build(spec)
    # iterate(): every node once, parents before children, left to right
    got = list(e.iterate())
    want = list(sem.walk_nodes(e))
    if len(got) != len(want) or any(g is not w for g, w in zip(got, want)):
        return 'iterate() order/uniqueness differs from the field-wise preorder'
    fv = props.pred_free_vars(spec)
    if not same_set(e.external_references(), fv):
        return f'external_references() = {sorted(map(str, e.external_references()))} expected {sorted(map(str, fv))}'
    if bool(e.contains_reference(probe)) != o_mentions(spec, probe):
        return f'contains_reference({probe}) = {e.contains_reference(probe)}'
    if bool(e.contains_definition(probe)) != o_defines(spec, probe):
        return f'contains_definition({probe}) = {e.contains_definition(probe)}'
    if bool(e.contains_self_reference()) != o_this(spec):
        return f'contains_self_reference() = {e.contains_self_reference()}'
    if level == 'expr':
        return None
    pred = HplPredicateExpression(e)
    if not same_set(pred.external_references(), fv) or bool(pred.contains_reference(probe)) != o_mentions(spec, probe) \
            or bool(pred.contains_self_reference()) != o_this(spec):
        return 'predicate-level delegation disagrees with the expression-level oracle'
    from hpl.errors import HplSanityError
    try:
        pred.check_some_self_references()
        own = True
    except HplSanityError:
        own = False
    if own != o_this(spec):
        return f'own-field check {"passes" if own else "fails"} but the predicate does{"" if o_this(spec) else " not"} reference the current message'
    # a derived tree answers for itself: replace the current message by @DERIVED and query again
    from hpl.ast.expressions import HplVarReference
    dname = sp.SymName(z3.IntVal(sp._const_id('DERIVED')), 'DERIVED') if isinstance(probe, sp.SymName) else 'DERIVED'
    pred_d = pred.replace_self_reference(HplVarReference(sp.SymTok(dname) if isinstance(dname, sp.SymName) else '@DERIVED'))
    want_d = list(fv) + ([dname] if o_this(spec) else [])
    if not same_set(pred_d.external_references(), want_d):
        return f'after replace_self_reference the derived predicate reports external_references() = {sorted(map(str, pred_d.external_references()))}, expected {sorted(map(str, want_d))}'
    if bool(pred_d.contains_self_reference()):
        return 'after replace_self_reference the derived predicate still reports a self reference'
    if level == 'pred':
        return None
    ev = HplSimpleEvent.publish('t', predicate=HplPredicateExpression(gen.build(spec)), alias=alias)
    want_ext = [n for n in fv if not (n == alias)]
    if not same_set(ev.external_references(), want_ext):
        return f'event external_references() = {sorted(map(str, ev.external_references()))} expected {sorted(map(str, want_ext))}'
    if list(ev.aliases()) != [alias]:
        return f'event aliases() = {ev.aliases()}'
    if bool(ev.contains_self_reference()) != (o_this(spec) or o_mentions(spec, alias)):
        return f'event contains_self_reference() = {ev.contains_self_reference()}'
    # an event derived with but() from an event that has already been queried answers for its OWN predicate
    d2 = sp.SymName(z3.IntVal(sp._const_id('DERIVED2')), 'DERIVED2') if isinstance(probe, sp.SymName) else 'DERIVED2'
    ev_d = ev.but(predicate=HplPredicateExpression(gen.build(('bin', '<', ('f', 'z'), ('fa', ('var', d2), 'z')))))
    want_evd = [] if d2 == alias else [d2]
    if not same_set(ev_d.external_references(), want_evd):
        return f'event derived with but(predicate=...) reports external_references() = {sorted(map(str, ev_d.external_references()))}, expected {sorted(map(str, want_evd))}'
    if not ev_d.contains_reference(d2) and not (d2 == alias):
        return 'event derived with but(predicate=...) does not report its new reference'
    ev2 = HplSimpleEvent.publish('u', predicate=HplPredicateExpression(gen.build(('bin', '<', ('f', 'z'), ('fa', ('var', probe), 'z')))), alias=None)
    dj = HplEventDisjunction(ev, HplEventDisjunction(ev2, HplSimpleEvent.publish('w', alias=probe)))
    if list(dj.aliases()) != [alias, probe]:
        return f'disjunction aliases() = {dj.aliases()} expected source order'
    want_dj = setify(list(want_ext) + [probe])
    if not same_set(dj.external_references(), want_dj):
        return f'disjunction external_references() = {sorted(map(str, dj.external_references()))}'
    if not dj.contains_reference(probe) or not dj.contains_self_reference():
        return 'disjunction contains_reference/contains_self_reference'
    return None


def run_item(item):
    spec_t, level = item
    keys = ['N1', 'QV', 'QW', 'PROBE', 'ALIAS']
    syms = {k: sp.SymName(z3.Int(k), k) for k in keys}
    spec = subst(spec_t, syms)

    def fn():
        return check_tree(spec, syms['PROBE'], syms['ALIAS'], level)

    res = {'paths': 0, 'bad': [], 'mismatch': [], 'queries': 0, 'solver_s': 0.0, 'skipped': 0}
    paths, ctx = sp.explore(fn)
    res['paths'], res['queries'], res['solver_s'] = len(paths), ctx.queries, ctx.solver_s
    for pc, (kind, val) in paths:
        m = sp.model_of(pc)
        conc = sp.concretise(m, list(syms.values()))
        cspec = subst(spec_t, conc)
        try:
            cval = ('ret', check_tree(cspec, conc['PROBE'], conc['ALIAS'], level))
        except Exception as e:
            cval = ('raise', type(e).__name__)
        sym = (kind, val if kind == 'raise' else (val is None))
        con = (cval[0], cval[1] if cval[0] == 'raise' else (cval[1] is None))
        if sym != con:
            res['mismatch'].append(f'symbolic {sym} vs concrete {con} on {gen.render(cspec)} names {conc}')
            continue
        if kind == 'raise':
            if val in ('HplSanityError', 'TypeError'):
                res['skipped'] += 1  # this coincidence of names makes the tree invalid (hygiene / typing): not an AST, nothing to query
            else:
                res['bad'].append((f'exception:{val}', gen.render(cspec), conc, f'query raised {val}'))
        elif val is not None:
            res['bad'].append(('query', gen.render(cspec), conc, cval[1]))
    return res


def worker(chunk):
    out = []
    for item in chunk:
        try:
            out.append((item, run_item(item)))
        except Exception as e:
            out.append((item, {'paths': 0, 'bad': [], 'mismatch': [f'harness exception {type(e).__name__}: {short(e, 200)}'], 'queries': 0, 'solver_s': 0.0, 'skipped': 0}))
    return out


def main() -> int:
    ck = Check('C15', 'other', 'the real query methods (external_references, contains_reference, contains_self_reference, contains_definition, aliases, own-field check, iterate) '
               'executed on trees whose variable, quantifier, probe and alias NAMES are symbolic (z3-backed str proxies, all feasible decision sequences), one tree per node kind x child slot x leaf form, '
               'against oracles computed on the tree specs')
    ck.functions('hpl.ast.base.HplAstObject.children/iterate', 'hpl.ast.expressions.*.external_references/contains_reference/contains_self_reference/contains_definition/children',
                 'hpl.ast.predicates.HplPredicate*.{external_references,contains_reference,contains_self_reference,check_some_self_references}', 'hpl.ast.predicates._get_reference_table',
                 'hpl.ast.events.HplSimpleEvent/HplEventDisjunction.{external_references,contains_reference,contains_self_reference,aliases}')
    items = []
    for kind, leaf in leaves('N1'):
        for ctx in contexts(leaf):
            items.append((ctx, 'event'))
            if True:
                for c2 in (('bin', 'and', ctx, ('bin', '<', ('fa', ('var', 'PROBE'), 'y'), L(2))), ('not', ctx),
                           ('q', 'forall', 'QW', ('f', 'ws'), ('bin', 'or', ('bin', '>', ('var', 'QW'), L(0)), ctx)) if 'QW' not in str(ctx) else ('not', ('not', ctx))):
                    items.append((c2, 'event'))
                    if ck.tier == 'thorough':
                        # second-level wrappers: the reference two further levels down, next to a second probe reference
                        items.append((('bin', 'iff', ('f', 'q'), ('bin', 'implies', c2, ('bin', '=', ('idx', ('f', 'ys'), ('fa', ('var', 'PROBE'), 'i')), L(0)))), 'event'))
                        items.append((('not', ('bin', 'or', ('not', c2), ('bin', 'in', ('fa', ('var', 'PROBE'), 'x'), ('set', L(1), ('f', 'y'))))), 'event'))
    t0 = time.time()
    results = [x for c in par.pmap_chunks(worker, items, 6) for x in c]
    paths = skipped = 0
    for (spec_t, level), r in results:
        paths += r['paths']
        skipped += r['skipped']
        ck.query('unsat', r['solver_s'], r['queries'])
        ck.obligation((not r['bad']) if not r['mismatch'] else None)
        for mm in r['mismatch']:
            ck.undecided(f'proxy model disagrees with the real code: {mm}')
        for kind, text, conc, why in r['bad']:
            ck.counterexample(f'{kind}@{text}', f'on «{text}» (probe {conc.get("PROBE")}, alias {conc.get("ALIAS")}): {why}', {'kind': 'query', 'text': text, 'names': conc, 'why': str(why)})
    ck.sample({'tree_template': gen.render(subst(items[7][0], {'N1': 'n', 'QV': 'v', 'QW': 'w'})), 'symbolic_names': ['n', 'v', 'w', 'probe', 'alias']})
    ck.sample({'tree_template': gen.render(subst(items[len(items) // 2][0], {'N1': 'n', 'QV': 'v', 'QW': 'w'})), 'symbolic_names': ['n', 'v', 'w', 'probe', 'alias']})
    ck.engine('SP', trees=len(items), paths=paths, paths_where_names_make_the_tree_invalid=skipped, wall_s=round(time.time() - t0, 1))
    ck.bound('trees', f'{len(items)} templates: 9 leaf forms (alias field, alias array element, own field, literal, index expression, nested message field, alias chain with an own-field index and a trailing field, own chain with an alias index, depth-5 mixed chain) x 27 (node kind x child slot) contexts'
             + (' x 4 (bare + 3 wrappers)' if ck.tier == 'quick' else ' x 10 (bare + 3 wrappers + 6 second-level wrappers)') + ', each at expression, predicate, event and event-disjunction level')
    ck.bound('names', 'variable / quantifier / probe / event-alias names symbolic: every equality pattern between them')
    ck.coverage['evaluations'] = paths
    ck.coverage['distinct_nontrivial'] = len(items)
    ck.coverage['rule'] = 'one evaluation = one feasible name-coincidence path of one tree through all query methods; non-trivial = distinct tree template'
    ck.assume('the proxy str subclass behaves like str: validated on every path by a concrete re-run with real str names')
    ck.outside('trees deeper than context(depth 2-3) + wrapper; property-level events() ordering')
    return ck.finish()


def replay(data) -> int:
    print('recorded:', data.get('what'))
    return 1
