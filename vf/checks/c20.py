"""C20 Type-set narrowing is set intersection — SF engine, complete over the 2^7 domain."""
from __future__ import annotations

import z3

from typing import List

from vf import sf
from vf.common import Check

W = 7


def bits(t):
    return [z3.Extract(i, i, t) == 1 for i in range(W)]


def subset(x, y):
    return z3.And(*[z3.Implies(bx, by) for bx, by in zip(bits(x), bits(y))])


def inter_is(r, x, y):
    """r is exactly the shared base types of x and y — stated bit by bit, not with bvand."""
    return z3.And(*[br == z3.And(bx, by) for br, bx, by in zip(bits(r), bits(x), bits(y))])


def union_is(r, xs):
    return z3.And(*[bits(r)[i] == z3.Or(*[bits(x)[i] for x in xs]) if xs else z3.Not(bits(r)[i]) for i in range(W)])


def share(x, y):
    return z3.Or(*[z3.And(bx, by) for bx, by in zip(bits(x), bits(y))])


def main() -> int:
    from hpl.types import DataType

    ck = Check('C20', 'proof', 'real DataType.cast/can_be/can_be_*/union function objects executed on z3 '
               'bit-vector proxies (all feasible paths), each law discharged as a validity query over all 7-bit type sets')
    ck.functions('hpl.types.DataType.cast', 'hpl.types.DataType.can_be', 'hpl.types.DataType.union',
                 *[f'hpl.types.DataType.can_be_{n}' for n in ('bool', 'number', 'string', 'array', 'set', 'range', 'message')])
    ck.bound('type sets', 'all 2^7 values for each of up to three symbolic operands (complete)')
    ck.coverage['exhaustive'] = True

    cast = DataType.cast  # plain function objects of the live class
    can_be = DataType.can_be
    union = DataType.union
    a, b, c, a2 = (z3.BitVec(n, W) for n in ('a', 'b', 'c', 'a2'))
    A, B, C, A2 = (sf.SymFlag(t) for t in (a, b, c, a2))

    members = {m.name: m for m in DataType.__members__.values()}
    base_names = ['BOOL', 'NUMBER', 'STRING', 'ARRAY', 'RANGE', 'SET', 'MESSAGE']

    def concrete_replay(fn_name, vals):
        """re-run on the real enum with concrete values; returns outcome"""
        args = [DataType(v) for v in vals]
        try:
            if fn_name == 'cast':
                return ('ret', DataType.cast(args[0], args[1]).value)
            if fn_name == 'can_be':
                return ('ret', DataType.can_be(args[0], args[1]))
            if fn_name == 'union':
                return ('ret', DataType.union(args).value)
        except TypeError:
            return ('raise', 'TypeError')
        except Exception as e:  # anything else is itself a violation of "raising a type error otherwise"
            return ('raise', type(e).__name__)

    def t_of(v):
        return v.t if isinstance(v, sf.SymFlag) else sf.SymFlag.lift(v, W)

    # ---- constants of the live enum ------------------------------------
    def const_ok():
        bad = []
        vals = []
        for n in base_names:
            if n not in members:
                bad.append(f'missing base type {n}')
                continue
            vals.append(members[n].value)
        if len(set(vals)) != 7 or any(v <= 0 or v & (v - 1) for v in vals) or (sum(vals) != 127):
            bad.append(f'base types are not seven distinct bits of a 7-bit set: {vals}')
        exp = {
            'NONE': 0,
            'PRIMITIVE': sum(members[n].value for n in ('BOOL', 'NUMBER', 'STRING')),
            'ITEM': sum(members[n].value for n in ('BOOL', 'NUMBER', 'STRING', 'MESSAGE')),
            'COMPOUND': sum(members[n].value for n in ('ARRAY', 'RANGE', 'SET')),
            'ANY': 127,
        }
        for n, v in exp.items():
            got = getattr(DataType, n, None)
            if got is None or got.value != v:
                bad.append(f'DataType.{n} = {got!r}, expected bits {v}')
        return bad

    bad = const_ok()
    ck.obligation(not bad, 1)
    if bad:
        ck.counterexample('constants', '; '.join(bad), {'kind': 'constants', 'detail': bad})

    # ---- translator validation: proxy &,| vs the real Flag on all pairs --
    mism = 0
    for x in range(128):
        dx = DataType(x)
        for y in range(128):
            dy = DataType(y)
            if (dx & dy).value != (x & y) or (dx | dy).value != (x | y) or bool(dx & dy) != bool(x & y):
                mism += 1
                if mism == 1:
                    ck.counterexample('flag-ops', f'DataType({x}) &/| DataType({y}) is not bitwise and/or',
                                      {'kind': 'flagops', 'x': x, 'y': y})
    ck.engine('SF', proxy_validation_pairs=128 * 128, proxy_mismatches=mism)
    ck.obligation(mism == 0, 1)

    # ---- obligations ------------------------------------------------------
    obligations = []

    def ob(name, fn, post, replay_fn=None, nvars=2):
        obligations.append((name, fn, post, replay_fn, nvars))

    # 1. cast: raises TypeError iff no shared base type; otherwise exactly the shared base types
    def post_bool_late(rv):
        def post(out):
            kind, v = out
            if kind != 'ret' or not isinstance(v, bool):
                return z3.BoolVal(False)
            return share(a, rv) if v else z3.Not(share(a, rv))
        return post

    def post_cast(out):
        kind, v = out
        if kind == 'raise':
            return z3.And(z3.Not(share(a, b))) if v == 'TypeError' else z3.BoolVal(False)
        return z3.And(share(a, b), inter_is(t_of(v), a, b))

    ob('cast-is-intersection', lambda: cast(A, B), post_cast, 'cast')

    # identity-based shortcuts (`self is t`, `t is DataType.ANY`) are invisible to two distinct proxies: one operand real / both the same object
    for nm_ in ('ANY', 'NONE', 'BOOL', 'PRIMITIVE'):
        R = members[nm_]
        rv = z3.BitVecVal(R.value, W)
        ob(f'cast-real-right-{nm_}', (lambda R=R: cast(A, R)),
           (lambda rv: lambda out: (z3.And(share(a, rv), inter_is(t_of(out[1]), a, rv)) if out[0] == 'ret' else (z3.Not(share(a, rv)) if out[1] == 'TypeError' else z3.BoolVal(False))))(rv), 'cast')
        ob(f'cast-real-left-{nm_}', (lambda R=R: cast(R, A)),
           (lambda rv: lambda out: (z3.And(share(a, rv), inter_is(t_of(out[1]), a, rv)) if out[0] == 'ret' else (z3.Not(share(a, rv)) if out[1] == 'TypeError' else z3.BoolVal(False))))(rv), 'cast')
        ob(f'can_be-real-{nm_}', (lambda R=R: can_be(A, R)), post_bool_late(rv), 'can_be')

    # 2. idempotent
    def post_same_as(ref_t):
        def post(out):
            kind, v = out
            return z3.And(kind == 'ret', t_of(v) == ref_t) if kind == 'ret' else z3.BoolVal(False)
        return post

    ob('cast-idempotent-self', lambda: cast(A, A), lambda out: (t_of(out[1]) == a) if out[0] == 'ret' else z3.Not(share(a, a)), 'cast')
    ob('cast-idempotent-twice', lambda: cast(cast(A, B), B),
       lambda out: z3.And(share(a, b), inter_is(t_of(out[1]), a, b)) if out[0] == 'ret' else z3.Not(share(a, b)), 'cast')

    # 3/4/5 need two runs compared: encode each side's outcome as (raised: Bool, value: BV)
    def outcome_terms(paths):
        raised = z3.BoolVal(False)
        value = z3.BitVecVal(0, W)
        other = z3.BoolVal(False)
        for pc, (kind, v) in paths:
            if kind == 'raise':
                if v == 'TypeError':
                    raised = z3.Or(raised, pc)
                else:
                    other = z3.Or(other, pc)
            else:
                value = z3.If(pc, t_of(v), value)
        return raised, value, other

    pair_obs = []

    def pair(name, f1, f2, claim, pre=None):
        pair_obs.append((name, f1, f2, claim, pre))

    def same_outcome(r1, v1, o1, r2, v2, o2):
        return z3.And(z3.Not(o1), z3.Not(o2), r1 == r2, z3.Implies(z3.Not(r1), v1 == v2))

    pair('cast-commutative', lambda: cast(A, B), lambda: cast(B, A), same_outcome)
    pair('cast-associative', lambda: cast(cast(A, B), C), lambda: cast(A, cast(B, C)), same_outcome)
    pair('cast-monotone', lambda: cast(A, B), lambda: cast(A2, B),
         lambda r1, v1, o1, r2, v2, o2: z3.And(z3.Not(o1), z3.Not(o2), z3.Implies(z3.Not(r1), z3.And(z3.Not(r2), subset(v1, v2)))),
         pre=subset(a, a2))

    # 6. can_be and can_be_*
    def post_bool(expected):
        def post(out):
            kind, v = out
            if kind != 'ret' or not isinstance(v, bool):
                return z3.BoolVal(False)
            return expected if v else z3.Not(expected)
        return post

    ob('can_be-is-nonempty-intersection', lambda: can_be(A, B), post_bool(share(a, b)), 'can_be')
    for nm in ('bool', 'number', 'string', 'array', 'set', 'range', 'message'):
        prop = DataType.__dict__.get(f'can_be_{nm}')
        getter = prop.fget if isinstance(prop, property) else None
        bit = members[nm.upper()].value.bit_length() - 1
        if getter is None:
            ck.counterexample('api', f'DataType.can_be_{nm} is not a property', {'kind': 'api', 'name': nm})
            continue
        ob(f'can_be_{nm}', (lambda g: (lambda: g(A)))(getter), post_bool(bits(a)[bit]), None)

    # 7. union = least upper bound
    def post_union(xs):
        def post(out):
            kind, v = out
            return union_is(t_of(v), xs) if kind == 'ret' else z3.BoolVal(False)
        return post

    ob('union-empty', lambda: union([]), post_union([]), 'union')
    ob('union-1', lambda: union([A]), post_union([a]), 'union')
    ob('union-2', lambda: union([A, B]), post_union([a, b]), 'union')
    ob('union-3', lambda: union(iter([A, B, C])), post_union([a, b, c]), 'union')
    more = [z3.BitVec(f'u{i}', W) for i in range(8)]
    MORE = [sf.SymFlag(t) for t in more]
    ob('union-7', lambda: union(list(MORE[:7])), post_union(more[:7]), 'union', 7)
    ob('union-8-generator', lambda: union(x for x in MORE), post_union(more), 'union', 8)
    ob('union-5-with-repeats', lambda: union([MORE[0], MORE[1], MORE[0], MORE[2], MORE[1]]), post_union([more[0], more[1], more[0], more[2], more[1]]), 'union', 3)
    ob('union-mixed-real', lambda: union([A, DataType.NUMBER, B]), post_union([a, z3.BitVecVal(DataType.NUMBER.value, W), b]), 'union')

    def post_lub(out):
        kind, v = out
        if kind != 'ret':
            return z3.BoolVal(False)
        u = t_of(v)
        return z3.And(subset(a, u), subset(b, u), z3.Implies(z3.And(subset(a, c), subset(b, c)), subset(u, c)))

    ob('union-least-upper-bound', lambda: union([A, B]), post_lub, 'union')

    proxy_gaps: List[str] = []
    SYMS = {'a': A, 'b': B, 'c': C, 'a2': A2}
    SYMS.update({f'u{i}': MORE[i] for i in range(8)})

    def used_names(name):
        if name.startswith('union-7'):
            return [f'u{i}' for i in range(7)]
        if name.startswith('union-8'):
            return [f'u{i}' for i in range(8)]
        if name.startswith('union-5'):
            return ['u0', 'u1', 'u2']
        return ['a', 'b', 'c']

    def concrete_outcome(fn, env):
        """run the obligation's call on the real enum: the SymFlag objects are given concrete bit patterns for the duration"""
        saved = {k: v.t for k, v in SYMS.items()}
        try:
            for k, v in SYMS.items():
                v.t = z3.BitVecVal(env.get(k, 0), W)
            real_args = {k: DataType(env.get(k, 0)) for k in SYMS}
            return run_real(fn, real_args)
        finally:
            for k, v in SYMS.items():
                v.t = saved[k]

    def run_real(fn, real_args):
        # re-evaluate the obligation's lambda with the proxies swapped for real members (closure cells are rebound)
        import types as _t
        cells = fn.__closure__ or ()
        names = fn.__code__.co_freevars
        new_cells = []
        for nm, cell in zip(names, cells):
            v = cell.cell_contents
            if isinstance(v, sf.SymFlag):
                key = [k for k, sv in SYMS.items() if sv is v][0]
                new_cells.append(_t.CellType(real_args[key]))
            elif isinstance(v, list) and v and all(isinstance(x, sf.SymFlag) for x in v):
                new_cells.append(_t.CellType([real_args[[k for k, sv in SYMS.items() if sv is x][0]] for x in v]))
            else:
                new_cells.append(cell)
        g = _t.FunctionType(fn.__code__, fn.__globals__, fn.__name__, fn.__defaults__, tuple(new_cells))
        try:
            return ('ret', g())
        except Exception as e:
            return ('raise', type(e).__name__)

    def explore_all(obligations, pair_obs):
        total_paths = 0
        for name, fn, post, replay_fn, _ in obligations:
            paths, ctx = sf.explore(fn, W)
            total_paths += len(paths)
            ck.query('unsat', ctx.solver_s, 0)
            ok = True
            # the paths must cover everything: disjunction of pcs is valid
            v, m, dt = sf.valid(z3.Or(*[pc for pc, _ in paths]))
            ck.query(v, dt)
            if v != 'unsat':
                ck.undecided(f'{name}: path conditions do not cover the domain ({v})')
                ok = False
            for pc, out in paths:
                v, m, dt = sf.valid(post(out), [pc])
                ck.query(v, dt)
                if v == 'unsat':
                    continue
                ok = False
                if v == 'unknown':
                    ck.undecided(f'{name}: z3 unknown')
                    continue
                env = {str(x): m.eval(x, model_completion=True).as_long() for x in [a, b, c, a2] + more}
                vals = [env[str(x)] for x in (a, b, c)]
                # replay: the same law on the REAL enum with the model's values, judged by the same post-condition
                real = concrete_outcome(fn, env)
                holds = z3.simplify(z3.substitute(post(real), *[(x, z3.BitVecVal(env[str(x)], W)) for x in [a, b, c, a2] + more]))
                if z3.is_true(holds):
                    # the proxies behaved differently from the real enum on this path: no verdict from SF here
                    proxy_gaps.append(name)
                    ck.engine('SF', proxy_gap=name)
                    break
                desc = f'{name}: ' + ' '.join(f'{k}={DataType(v)!r}' for k, v in env.items() if k in used_names(name)) + f' -> real outcome {real[0]} {real[1]!r}'
                ck.counterexample(f'law:{name}', desc, {'kind': 'law', 'law': name, 'values': vals, 'env': env, 'real_outcome': [real[0], str(real[1])]})
            ck.obligation(ok)
            ck.sample({'obligation': name, 'paths': len(paths), 'holds': ok})

        for name, f1, f2, claim, pre in pair_obs:
            p1, c1 = sf.explore(f1, W)
            p2, c2 = sf.explore(f2, W)
            total_paths += len(p1) + len(p2)
            ck.query('unsat', c1.solver_s + c2.solver_s, 0)
            r1, v1, o1 = outcome_terms(p1)
            r2, v2, o2 = outcome_terms(p2)
            v, m, dt = sf.valid(claim(r1, v1, o1, r2, v2, o2), [pre] if pre is not None else [])
            ck.query(v, dt)
            ok = v == 'unsat'
            if v == 'sat':
                vals = [m.eval(x, model_completion=True).as_long() for x in (a, b, c, a2)]
                env = dict(zip(('a', 'b', 'c', 'a2'), vals))
                # replay both sides on the real enum and judge them with the same claim
                def as_terms(o):
                    kind, val = o
                    if kind == 'raise':
                        return (z3.BoolVal(val == 'TypeError'), z3.BitVecVal(0, W), z3.BoolVal(val != 'TypeError'))
                    return (z3.BoolVal(False), z3.BitVecVal(val.value, W), z3.BoolVal(False))
                real1, real2 = concrete_outcome(f1, env), concrete_outcome(f2, env)
                if z3.is_true(z3.simplify(claim(*as_terms(real1), *as_terms(real2)))):
                    proxy_gaps.append(name)
                    ck.engine('SF', proxy_gap=name)
                    continue
                ck.counterexample(f'law:{name}', f'{name} fails at a={vals[0]} b={vals[1]} c={vals[2]} a2={vals[3]}',
                                  {'kind': 'law', 'law': name, 'values': vals})
            elif v == 'unknown':
                ck.undecided(f'{name}: z3 unknown')
            ck.obligation(ok)
            ck.sample({'obligation': name, 'paths': [len(p1), len(p2)], 'holds': ok})

        return total_paths

    # `x in y` with a REAL member on the left-hand container and a proxy inside is answered by enum.Flag.__contains__, which refuses
    # non-members: for the duration of the explorations the live class gets a __contains__ that forwards proxies to the proxy's own
    # (bitwise) containment and everything else to enum.Flag.__contains__ (removed again below; not a change to /repo)
    import enum as _enum

    def _contains(self, other):
        if isinstance(other, sf.SymFlag):
            return other._fork((other.t & self.value) == other.t)
        return _enum.Flag.__contains__(self, other)

    had_own = '__contains__' in DataType.__dict__
    if not had_own:
        type.__setattr__(DataType, '__contains__', _contains)
    try:
        total_paths = explore_all(obligations, pair_obs)
    finally:
        if not had_own:
            type.__delattr__(DataType, '__contains__')
    for g in proxy_gaps:
        ck.undecided(f'{g}: the bit-vector proxies cannot execute this code shape (their outcome differs from the real enum on the same values)')
    # the same laws on the REAL members for all 128 x 128 pairs (complete; identity comparisons between real members included)
    bad_pair = None
    for x in range(128):
        dx = DataType(x)
        for y in range(128):
            dy = DataType(y)
            try:
                got = ('ret', DataType.cast(dx, dy).value)
            except TypeError:
                got = ('raise', 'TypeError')
            except Exception as e:
                got = ('raise', type(e).__name__)
            want = ('ret', x & y) if x & y else ('raise', 'TypeError')
            if got != want and bad_pair is None:
                bad_pair = f'cast({dx!r}, {dy!r}) -> {got}, expected {want}'
            try:
                cb = DataType.can_be(dx, dy)
            except Exception as e:
                cb = type(e).__name__
            if cb is not bool(x & y) and bad_pair is None:
                bad_pair = f'can_be({dx!r}, {dy!r}) -> {cb!r}, expected {bool(x & y)}'
            try:
                un = DataType.union([dx, dy]).value
            except Exception as e:
                un = type(e).__name__
            if un != (x | y) and bad_pair is None:
                bad_pair = f'union([{dx!r}, {dy!r}]) -> {un!r}, expected {x | y}'
    ck.obligation(bad_pair is None, 1)
    if bad_pair:
        ck.counterexample('law:real-members', bad_pair, {'kind': 'law', 'law': 'real-members'})
    ck.engine('SF', real_member_pairs=128 * 128)

    # long iterables (concrete: the length, not the values, is what matters; outside the symbolic bound of 8 operands)
    import itertools as _it
    base = [members[n] for n in base_names]
    bad_long = None
    for n in (100, 1500, 20000):
        seq = [base[i % 3] for i in range(n)]
        for mk in (lambda q: q, lambda q: iter(q), lambda q: (x for x in q)):
            try:
                got = DataType.union(mk(seq))
                if got.value != (base[0] | base[1] | base[2]).value:
                    bad_long = bad_long or f'union of {n} operands = {got!r}'
            except Exception as e:
                bad_long = bad_long or f'union of {n} operands raised {type(e).__name__}'
    ck.obligation(bad_long is None, 1)
    if bad_long:
        ck.counterexample('law:union-long', bad_long, {'kind': 'law', 'law': 'union-long'})
    ck.bound('union', 'symbolic: 0..3, 7 and 8 operands with arbitrary type sets (list, iterator, generator, repeats, mixed with real members); concrete: 100 / 1500 / 20000 operands')

    ck.engine('SF', paths=total_paths)
    ck.coverage['checker_cmd'] = './check C20'
    ck.coverage['trusted_base'] = ['z3 4.x/5.x bit-vector decision procedure', 'CPython enum.Flag (&, |, bool) — compared with the proxy on all 128x128 pairs in this run',
                                   'vf/sf.py path explorer (path conditions checked to cover the domain)']
    ck.assume('DataType has exactly the seven base members (checked on the live enum in this run)')
    return ck.finish()


def replay(data) -> int:
    from hpl.types import DataType
    print('replay', data.get('what'))
    if data.get('kind') == 'law' and data.get('law', '').startswith('cast'):
        x, y = data['values'][:2]
        try:
            print('cast ->', DataType(x).cast(DataType(y)))
        except Exception as e:
            print('cast raised', type(e).__name__, e)
    return 1
