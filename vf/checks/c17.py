"""C17 Schema checking of references is exact.

(1) SP: field names (symbolic str proxies compared with the schema's keys), array lengths and literal indices (symbolic ints) flow
    through the real type_check_references / _get_next_token / contains_index; every feasible path must agree with the schema oracle.
(2) exhaustive single-fault injection at every reference position of the C04 predicates (incl. index expressions, range bounds, set
    elements, function arguments, quantifier domains and bodies): valid -> accepted, exactly one fault -> an error.
(3) z3 bit-vector queries: each predefined integer token carries exactly the two's-complement bounds of its width.
(4) SP: token constructors with symbolic min/max/length raise iff the declaration is ill-formed; navigation helpers vs the field tree.
"""
from __future__ import annotations

import time
from typing import Any, Dict, List, Optional, Tuple

import z3

from vf import gen, par, props, rw, schemas as S, sem, sp, symtypes as ST
from vf.common import Check, short

ERRORS = ('TypeError', 'IndexError', 'HplSanityError')
KNOWN_ALIAS = 'type_check_references:alias-root-unresolved'


# ---------------------------------------------------------------------------------------------------------------
# (1) symbolic names / lengths / indices
# ---------------------------------------------------------------------------------------------------------------

_PLAIN = [False]


def const_name(s: str):
    """a concrete field name: a symbolic-name constant in symbolic runs (comparable with the schema's proxy keys), the plain str in concrete re-runs"""
    if _PLAIN[0]:
        return s
    return sp.SymName(z3.IntVal(sp._const_id(s)), s)


def sym_schema(length):
    """schema with SymName-constant keys; array 'fx' has the given (possibly symbolic) length"""
    inner = {const_name(k): v for k, v in S.INNER.items()}
    fields = {const_name('x'): 'num', const_name('p'): 'bool', const_name('s'): 'str', const_name('xs'): ('arr', 'num', -1),
              const_name('fx'): ('arr', 'num', length), const_name('m'): ('msg', inner), const_name('ms'): ('arr', ('msg', inner), -1)}
    return {'fields': fields, 'constants': {const_name('K'): ('num', 5)}}


def sym_templates():
    """(name, builder(r, i) -> (expr spec using field name r and literal index i), how the reference r is used)"""
    R = 'R'  # placeholder for the symbolic name
    c = const_name  # concrete field names must be symbolic-name constants too (they are compared with the schema's keys)
    return [
        ('r > 0', lambda r, i: ('bin', '>', ('f', r), ('lit', 0)), ('f', 'R'), ST.NUMBER),
        ('not r', lambda r, i: ('not', ('f', r)), ('f', 'R'), ST.BOOL),
        ('r = "a"', lambda r, i: ('bin', '=', ('f', r), ('str', 'a')), ('f', 'R'), ST.STRING),
        ('r.x > 0', lambda r, i: ('bin', '>', ('fa', ('f', r), c('x')), ('lit', 0)), ('fa', ('f', 'R'), c('x')), ST.NUMBER),
        ('m.r > 0', lambda r, i: ('bin', '>', ('fa', ('f', c('m')), r), ('lit', 0)), ('fa', ('f', c('m')), 'R'), ST.NUMBER),
        ('r[i] > 0', lambda r, i: ('bin', '>', ('idx', ('f', r), ('lit', i)), ('lit', 0)), ('idx', ('f', 'R'), ('lit', 'I')), ST.NUMBER),
        ('fx[i] > 0', lambda r, i: ('bin', '>', ('idx', ('f', c('fx')), ('lit', i)), ('lit', 0)), ('idx', ('f', c('fx')), ('lit', 'I')), ST.NUMBER),
        ('ms[i].r > 0', lambda r, i: ('bin', '>', ('fa', ('idx', ('f', c('ms')), ('lit', i)), r), ('lit', 0)), ('fa', ('idx', ('f', c('ms')), ('lit', 'I')), 'R'), ST.NUMBER),
        ('ms[r].x > 0', lambda r, i: ('bin', '>', ('fa', ('idx', ('f', c('ms')), ('f', r)), c('x')), ('lit', 0)), ('f', 'R'), ST.NUMBER),
        ('xs[r][i] ...', lambda r, i: ('bin', '>', ('fa', ('idx', ('f', c('ms')), ('idx', ('f', c('fx')), ('f', r))), c('x')), ('lit', 0)), ('f', 'R'), ST.NUMBER),
        ('@A.r > 0', lambda r, i: ('bin', '>', ('fa', ('var', 'A'), r), ('lit', 0)), ('fa', ('var', 'A'), 'R'), ST.NUMBER),
        ('x in r', lambda r, i: ('bin', 'in', ('f', c('x')), ('f', r)), ('f', 'R'), ST.ARRAY),
        ('forall v in r: v > 0', lambda r, i: ('q', 'forall', 'v', ('f', r), ('bin', '>', ('var', 'v'), ('lit', 0))), ('f', 'R'), ST.ARRAY),
        ('xs[fx[i]] > 0', lambda r, i: ('bin', '>', ('idx', ('f', c('xs')), ('idx', ('f', c('fx')), ('lit', i))), ('lit', 0)), ('idx', ('f', c('fx')), ('lit', 'I')), ST.NUMBER),
        ('x in [r to 9]', lambda r, i: ('bin', 'in', ('f', c('x')), ('range', ('f', r), ('lit', 9), False, False)), ('f', 'R'), ST.NUMBER),
        ('x in {1, r}', lambda r, i: ('bin', 'in', ('f', c('x')), ('set', ('lit', 1), ('f', r))), ('f', 'R'), ST.PRIMITIVE),
        ('abs(r) > 0', lambda r, i: ('bin', '>', ('call', 'abs', ('f', r)), ('lit', 0)), ('f', 'R'), ST.NUMBER),
    ]


def build_sym(spec):
    """gen.build, but literal indices may be symbolic ints (HplLiteral built directly, as the API allows)"""
    from hpl.ast.expressions import HplLiteral
    if spec[0] == 'lit' and isinstance(spec[1], sp.SymInt):
        return HplLiteral('i', spec[1])
    if spec[0] == 'idx':
        T = gen.transformer()
        ix = spec[2]
        if ix[0] == 'lit':  # literal index built directly (the API allows negative literals; the parser would produce a unary minus)
            v = ix[1]
            index = HplLiteral('i' if isinstance(v, sp.SymInt) else str(v), v)
        else:
            index = build_sym(ix)
        return T.array_access(build_sym(spec[1]), index)
    if spec[0] in ('f', 'var', 'lit', 'str', 'const'):
        return gen.build(spec)
    T = gen.transformer()
    k = spec[0]
    if k == 'fa':
        return T.field_access(build_sym(spec[1]), spec[2])
    if k == 'bin':
        return getattr(T, gen.LEVEL[spec[1]])([build_sym(spec[2]), spec[1], build_sym(spec[3])])
    if k == 'not':
        return T.negation('not', build_sym(spec[1]))
    if k == 'q':
        return T.quantification(spec[1], spec[2], build_sym(spec[3]), build_sym(spec[4]))
    if k == 'call':
        return T.function_call(spec[1], build_sym(spec[2]))
    if k == 'set':
        return T.enum_literal([build_sym(a) for a in spec[1:]])
    if k == 'range':
        return T.range_literal('![' if spec[3] else '[', build_sym(spec[1]), build_sym(spec[2]), ']!' if spec[4] else ']')
    raise ValueError(spec)


def oracle_verdict(refspec, use_mask, schema, r, i) -> Optional[str]:
    """None = schema check must succeed; else the fault kind"""
    def inst(s):
        if isinstance(s, tuple):
            return tuple(inst(t) for t in s)
        return r if s == 'R' else i if s == 'I' else s
    ref = inst(refspec)
    try:
        t = S.resolve(ref, schema, {'A': schema})
    except S.Fault as f:
        return f.kind
    if not (S.type_mask(t) & use_mask):
        return 'type-mismatch'
    return None


def run_sym(item):
    ti, which = item
    name, mk, refspec, use_mask = sym_templates()[ti]
    r = sp.SymName(z3.Int('r'), 'r')
    i = sp.SymInt(z3.Int('i'))
    Ln = sp.SymInt(z3.Int('L'))
    pre = [Ln.t >= -1, Ln.t <= 4, i.t >= -2, i.t <= 5]
    schema = sym_schema(Ln)

    def fn():
        tok = S.message_token(schema, 'Sym')  # the real token constructors run on the symbolic length too
        want = oracle_verdict(refspec, use_mask, schema, r, i)
        try:
            e = build_sym(mk(r, i))
        except TypeError:
            return ('illtyped', want)
        try:
            e.type_check_references(tok, {'A': tok})
            got = None
        except Exception as ex:
            got = type(ex).__name__
        return ('checked', want, got)

    res = {'paths': 0, 'bad': [], 'mismatch': [], 'queries': 0, 'solver_s': 0.0}
    from vf import sf
    paths, ctx = sf.explore(fn, 0, pre)
    res['paths'], res['queries'], res['solver_s'] = len(paths), ctx.queries, ctx.solver_s
    for pc, (kind, val) in paths:
        s = z3.Solver()
        s.add(*pre)
        s.add(pc)
        if s.check() != z3.sat:
            res['mismatch'].append('unsatisfiable path condition')
            continue
        m = s.model()
        conc = sp.concretise(m, [r])
        rv = conc['r']
        iv = m.eval(i.t, model_completion=True).as_long()
        lv = m.eval(Ln.t, model_completion=True).as_long()
        # concrete re-run on the real code with real str / int
        cschema = dict(S.SCHEMA_THIS)
        cfields = {'x': 'num', 'p': 'bool', 's': 'str', 'xs': ('arr', 'num', -1), 'fx': ('arr', 'num', lv), 'm': ('msg', dict(S.INNER)), 'ms': ('arr', ('msg', dict(S.INNER)), -1)}
        cschema = {'fields': cfields, 'constants': {'K': ('num', 5)}}
        ctok = S.message_token(cschema, 'Conc')
        _PLAIN[0] = True
        try:
            _, cmk, crefspec, _ = sym_templates()[ti]
            cspec = cmk(rv, iv)
        finally:
            _PLAIN[0] = False
        cwant = oracle_verdict(crefspec, use_mask, cschema, rv, iv)
        try:
            from hpl.ast.expressions import HplLiteral
            e = build_sym(cspec)
            try:
                e.type_check_references(ctok, {'A': ctok})
                cgot = None
            except Exception as ex:
                cgot = type(ex).__name__
            cout = ('checked', cwant, cgot)
        except TypeError:
            cout = ('illtyped', cwant)
        if kind == 'raise':
            res['bad'].append((f'exception:{val}', f'{name} with r={rv!r} i={iv} L={lv}', f'unexpected {val}'))
            continue
        if (val[0], val[1] is None) != (cout[0], cout[1] is None) or (val[0] == 'checked' and (val[2], ) != (cout[2], )):
            res['mismatch'].append(f'{name}: symbolic {val} vs concrete {cout} at r={rv!r} i={iv} L={lv}')
            continue
        if val[0] != 'checked':
            continue
        want, got = val[1], val[2]
        desc = f'«{name}» with field name r={rv!r}, literal index i={iv}, fixed length L={lv}'
        if want is None and got is not None:
            res['bad'].append((f'false-reject:{name}', desc, f'valid reference rejected with {got}'))
        elif want is not None and got is None:
            res['bad'].append((f'false-accept:{want}:{name}', desc, f'{want} not reported'))
        elif want is not None and got not in ERRORS:
            res['bad'].append((f'wrong-error:{got}:{name}', desc, f'{want} reported as {got}'))
    return res


def _conc_index(spec):
    if isinstance(spec, tuple):
        return tuple(_conc_index(s) for s in spec)
    return spec


def worker_sym(chunk):
    out = []
    for item in chunk:
        try:
            out.append((item, run_sym(item)))
        except Exception as e:
            out.append((item, {'paths': 0, 'bad': [], 'mismatch': [f'harness exception {type(e).__name__}: {short(e, 200)}'], 'queries': 0, 'solver_s': 0.0}))
    return out


# ---------------------------------------------------------------------------------------------------------------
# (2) single-fault injection over the C04 predicates
# ---------------------------------------------------------------------------------------------------------------

TOK = None


def init():
    global TOK
    if TOK is None:
        TOK = (S.message_token(S.SCHEMA_THIS, 'This'), S.message_token(S.SCHEMA_ALIAS, 'Alias'))


def ref_positions(spec, path=(), qv=()) -> List[Tuple[Tuple[int, ...], Any, Tuple[str, ...], str]]:
    """maximal reference chains with their position kind"""
    out = []
    k = spec[0]
    if k in ('f', 'fa', 'idx'):
        out.append((path, spec, qv))
        if k == 'idx':
            out.extend([(p, s, q) for p, s, q in ref_positions(spec[2], path + (2,), qv)])
            inner = spec[1]
            p2 = path + (1,)
            while inner[0] in ('fa', 'idx'):
                if inner[0] == 'idx':
                    out.extend(ref_positions(inner[2], p2 + (2,), qv))
                inner = inner[1]
                p2 = p2 + (1,)
        elif k == 'fa':
            inner = spec[1]
            p2 = path + (1,)
            while inner[0] in ('fa', 'idx'):
                if inner[0] == 'idx':
                    out.extend(ref_positions(inner[2], p2 + (2,), qv))
                inner = inner[1]
                p2 = p2 + (1,)
        return out
    if k == 'q':
        out.extend(ref_positions(spec[3], path + (3,), qv))
        out.extend(ref_positions(spec[4], path + (4,), qv + (spec[2],)))
        return out
    for i, t in enumerate(spec):
        if isinstance(t, tuple):
            out.extend(ref_positions(t, path + (i,), qv))
    return out


def put(spec, path, new):
    if not path:
        return new
    i = path[0]
    return spec[:i] + (put(spec[i], path[1:], new),) + spec[i + 1:]


def schema_check(spec):
    """None | exception class name, via the property-level entry point (alias key supplied)"""
    init()
    ev_b = ('ev', 't2', None, spec)
    p = {'scope': 'globally', 'pattern': 'response', 'activator': None, 'terminator': None, 'trigger': ('ev', 't1', 'A', None), 'behaviour': ev_b, 'max_time': None, 'meta': None}
    try:
        prop = props.build_property(p)
    except TypeError:
        return 'construction-TypeError'
    try:
        prop.type_check_references({'t1': TOK[1], 't2': TOK[0], 'A': TOK[1]})
        return None
    except Exception as e:
        return type(e).__name__


TOK_ROT = None


def history_check(spec) -> Optional[str]:
    """type_check_references must not depend on earlier checks of the same object: verdict against a second schema (every primitive
    type rotated) on a FRESH property vs on a property that was first checked against the first schema"""
    global TOK_ROT
    init()
    if TOK_ROT is None:
        TOK_ROT = (S.message_token(S.rotate_types(S.SCHEMA_THIS), 'ThisR'), S.message_token(S.rotate_types(S.SCHEMA_ALIAS), 'AliasR'))
    ev_b = ('ev', 't2', None, spec)
    p = {'scope': 'globally', 'pattern': 'response', 'activator': None, 'terminator': None, 'trigger': ('ev', 't1', 'A', None), 'behaviour': ev_b, 'max_time': None, 'meta': None}

    def verdict(prop, tok):
        try:
            prop.type_check_references({'t1': tok[1], 't2': tok[0], 'A': tok[1]})
            return None
        except Exception as e:
            return type(e).__name__
    fresh = verdict(props.build_property(p), TOK_ROT)
    seq_obj = props.build_property(p)
    first = verdict(seq_obj, TOK)
    second = verdict(seq_obj, TOK_ROT)
    again = verdict(seq_obj, TOK)
    if second != fresh:
        return f'against the rotated schema a fresh property gives {fresh or "accepted"}, the same property after a check against the first schema gives {second or "accepted"}'
    if again != first:
        return f'the first schema: {first or "accepted"} at first, {again or "accepted"} after a check against another schema'
    return None


def inside_index(path, spec) -> bool:
    """is this position inside an index expression of an enclosing array access?"""
    cur = spec
    for k, i in enumerate(path):
        if cur[0] == 'idx' and i == 2:
            return True
        cur = cur[i]
    return False


def case(spec):
    found = []
    n = 0
    text = gen.render(spec)
    ok = schema_check(spec)
    if ok == 'construction-TypeError':
        return [], 0  # not an accepted predicate at all (C04's matter: e.g. a quantified variable name reused at two types): no host for fault injection
    if ok is not None:
        return [(f'valid-rejected:{ok}@{text}', f'valid «{text}» -> {ok}', {'kind': 'fault', 'spec': spec})], 1
    h = history_check(spec)
    if h is not None:
        found.append((f'check-depends-on-history@{text}', f'«{text}»: {h}', {'kind': 'fault', 'spec': spec}))
    for path, ref, qv in ref_positions(spec):
        if S.root_of(ref)[0] == 'var' and S.root_of(ref)[1] in qv:
            continue
        for kind, bad in S.fault_variants(ref):
            try:
                S.resolve(bad, S.SCHEMA_THIS, {'A': S.SCHEMA_ALIAS}, qv)
                continue  # not actually a fault under this schema
            except S.Fault as f:
                fk = f.kind
            inj = put(spec, path, bad)
            n += 1
            r = schema_check(inj)
            if r == 'construction-TypeError':
                continue  # the fault already makes the text ill-typed on its own (e.g. x.x[0] + 1): rejected before any schema
            where = 'index expression' if inside_index(path, spec) else 'other'
            itext = gen.render(inj)
            if r is None:
                sig = 'false-accept:reference-inside-index-expression' if where == 'index expression' else f'false-accept:{fk}@{itext}'
                found.append((sig, f'«{itext}» ({fk} injected in «{gen.render(ref)}») passes the schema check', {'kind': 'fault', 'spec': inj}))
            elif r not in ERRORS:
                found.append((f'wrong-error:{r}:{fk}@{itext}', f'«{itext}» ({fk}) raises {r}', {'kind': 'fault', 'spec': inj}))
    return found[:6], n


def worker(chunk):
    out = []
    for spec in chunk:
        try:
            out.append((spec, case(spec)))
        except Exception as e:
            out.append((spec, ([('harness', f'{type(e).__name__}: {short(e, 200)}', {})], -1)))
    return out


# ---------------------------------------------------------------------------------------------------------------
# (3) integer tokens, (4) constructors and navigation helpers
# ---------------------------------------------------------------------------------------------------------------

def int_tokens(ck: Check):
    from hpl import types as HT
    for name, w, signed in (('UINT8', 8, False), ('UINT16', 16, False), ('UINT32', 32, False), ('UINT64', 64, False),
                            ('INT8', 8, True), ('INT16', 16, True), ('INT32', 32, True), ('INT64', 64, True)):
        tok = getattr(HT, name)
        x = z3.BitVec('x', w)
        val = z3.BV2Int(x, signed)
        lo, hi = z3.IntVal(tok.min_value), z3.IntVal(tok.max_value)
        s = z3.Solver()
        s.set('timeout', 20000)
        t0 = time.time()
        # every w-bit value lies within [min, max] and both bounds are attained
        s.add(z3.Not(z3.And(val >= lo, val <= hi)))
        r1 = s.check()
        s2 = z3.Solver()
        s2.set('timeout', 20000)
        y, zz = z3.BitVec('y', w), z3.BitVec('z', w)
        s2.add(z3.BV2Int(y, signed) == lo, z3.BV2Int(zz, signed) == hi)
        r2 = s2.check()
        dt = time.time() - t0
        ok = (r1 == z3.unsat and r2 == z3.sat)
        ck.query('unsat' if r1 == z3.unsat else 'sat' if r1 == z3.sat else 'unknown', dt)
        ck.query('sat' if r2 == z3.sat else 'unsat' if r2 == z3.unsat else 'unknown', 0)
        if r1 == z3.unknown or r2 == z3.unknown:
            ck.obligation(None)
            ck.undecided(f'{name}: z3 unknown')
            continue
        ck.obligation(ok)
        if not ok:
            ck.counterexample(f'int-token-bounds:{name}', f'{name}: min={tok.min_value} max={tok.max_value} are not the {"signed" if signed else "unsigned"} {w}-bit bounds', {'kind': 'token', 'name': name})
        if tok.type.name != 'NUMBER':
            ck.counterexample(f'int-token-type:{name}', f'{name} is not a NUMBER token', {'kind': 'token', 'name': name})


def constructors(ck: Check):
    from hpl.types import ArrayType, DataType, EnumeratedType, MessageType, RangedType, TypeToken
    from vf import sf
    a, b, n = sp.SymInt(z3.Int('a')), sp.SymInt(z3.Int('b')), sp.SymInt(z3.Int('n'))
    num = TypeToken('n', DataType.NUMBER)
    obligations = [
        ('RangedType(min=a, max=b) raises iff b < a', lambda: RangedType('r', DataType.NUMBER, min_value=a, max_value=b), b.t < a.t, 'ValueError'),
        ('ArrayType(length=n) raises iff n < -1', lambda: ArrayType('arr', num, n), n.t < -1, 'ValueError'),
    ]
    for name, fn, bad, exc in obligations:
        paths, ctx = sf.explore(fn, 0)
        ok = True
        for pc, (kind, val) in paths:
            claim = bad if kind == 'raise' else z3.Not(bad)
            if kind == 'raise' and val != exc:
                claim = z3.BoolVal(False)
            v, m, dt = sf.valid(claim, [pc])
            ck.query(v, dt)
            if v != 'unsat':
                ok = False
                if v == 'sat':
                    vals = {str(d): m[d].as_long() for d in m.decls()}
                    ck.counterexample(f'token-constructor:{name}', f'{name}: fails at {vals} (outcome {kind} {val})', {'kind': 'ctor', 'name': name, 'values': vals})
                else:
                    ck.undecided(f'{name}: z3 unknown')
        ck.obligation(ok)
    # fixed-length / contains_index with symbolic length and index
    ln, ix = sp.SymInt(z3.Int('len')), sp.SymInt(z3.Int('idx'))

    def ci():
        return ArrayType('arr', num, ln).contains_index(ix)

    paths, ctx = sf.explore(ci, 0, [ln.t >= -1])
    want = z3.And(ix.t >= 0, z3.Or(ln.t < 0, ix.t < ln.t))
    ok = True
    for pc, (kind, val) in paths:
        claim = (want if val else z3.Not(want)) if kind == 'ret' else z3.BoolVal(False)
        v, m, dt = sf.valid(claim, [pc, ln.t >= -1])
        ck.query(v, dt)
        if v == 'sat':
            ok = False
            lv, iv = m.eval(ln.t, model_completion=True).as_long(), m.eval(ix.t, model_completion=True).as_long()
            real = ArrayType('arr', num, lv).contains_index(iv)
            ck.counterexample('contains_index', f'ArrayType(length={lv}).contains_index({iv}) = {real}', {'kind': 'contains_index', 'length': lv, 'index': iv})
        elif v == 'unknown':
            ok = False
            ck.undecided('contains_index: z3 unknown')
    ck.obligation(ok)
    # enumerated values of the wrong kind; base type validation
    bad_enum = [(DataType.BOOL, (1,)), (DataType.NUMBER, ('a',)), (DataType.STRING, (1,)), (DataType.BOOL, (True, 'x'))]
    good_enum = [(DataType.BOOL, (True, False)), (DataType.NUMBER, (1, 2.5)), (DataType.STRING, ('a',)), (DataType.NUMBER, ())]
    ok = True
    for t, vals in bad_enum:
        try:
            EnumeratedType('e', t, vals)
            ok = False
            ck.counterexample(f'enum-accepts-wrong-kind:{t.name}', f'EnumeratedType(type={t.name}, values={vals}) accepted', {'kind': 'enum'})
        except TypeError:
            pass
    for t, vals in good_enum:
        try:
            EnumeratedType('e', t, vals)
        except Exception as e:
            ok = False
            ck.counterexample(f'enum-rejects-valid:{t.name}', f'EnumeratedType(type={t.name}, values={vals}) raised {type(e).__name__}', {'kind': 'enum'})
    for t in (DataType.PRIMITIVE, DataType.NONE, DataType.ANY, DataType.COMPOUND):
        try:
            TypeToken('t', t)
            ok = False
            ck.counterexample(f'token-accepts-non-base-type:{t.name}', f'TypeToken(type={t!r}) accepted', {'kind': 'token'})
        except ValueError:
            pass
    ck.obligation(ok)


def navigation(ck: Check):
    """field lookup, constant lookup, leaf-field listing vs the declared tree (probe name symbolic)"""
    from vf import sf
    schema = sym_schema(3)
    probe = sp.SymName(z3.Int('probe'), 'probe')

    def fn():
        tok = S.message_token(schema, 'Nav')
        has = tok.contains_name(probe)
        want = (probe in schema['fields']) or (probe in schema['constants'])
        if bool(has) != bool(want):
            return ('contains_name', has, want)
        if want:
            t = tok.get_type_of(probe)
            decl = schema['fields'][probe] if probe in schema['fields'] else schema['constants'][probe][0]
            if t.type.value != S.type_mask(decl):
                return ('get_type_of', str(t), decl)
        return None

    paths, ctx = sf.explore(fn, 0)
    ok = True
    for pc, (kind, val) in paths:
        if kind == 'raise' or val is not None:
            ok = False
            m = sp.model_of(pc)
            ck.counterexample(f'navigation:{val[0] if kind == "ret" else val}', f'navigation helper disagrees with the declared tree for name {sp.concretise(m, [probe])}: {val}', {'kind': 'nav'})
    ck.query('unsat', ctx.solver_s, ctx.queries)
    ck.obligation(ok)
    # leaf_fields on concrete nested schemas
    ctok = S.message_token(S.SCHEMA_THIS, 'This')

    def leaves(fields, prefix=''):
        out = {}
        for k, v in fields.items():
            if not isinstance(v, str) and v[0] == 'msg':
                out.update(leaves(v[1], f'{prefix}{k}.'))
            else:
                out[f'{prefix}{k}'] = v
        return out
    want = leaves(S.SCHEMA_THIS['fields'])
    try:
        got = ctok.leaf_fields()
        if set(got) != set(want) or any(got[k].type.value != S.type_mask(want[k]) for k in want):
            ck.counterexample('navigation:leaf_fields', f'leaf_fields() = {sorted(got)} expected {sorted(want)}', {'kind': 'nav'})
            ck.obligation(False)
        else:
            ck.obligation(True)
    except Exception as e:
        ck.counterexample(f'navigation:leaf_fields:{type(e).__name__}', f'leaf_fields() raised {type(e).__name__}: {short(e, 100)}', {'kind': 'nav'})
        ck.obligation(False)


def main() -> int:
    ck = Check('C17', 'other', 'SP: symbolic field names (z3-backed str proxies, also as schema keys), symbolic array lengths and literal indices (z3-backed ints) through the real '
               'type_check_references/_get_next_token/contains_index, every feasible path against the schema oracle; exhaustive single-fault injection at every reference position; '
               'z3 bit-vector queries for the predefined integer tokens; symbolic-argument token constructors; navigation helpers with a symbolic probe name')
    ck.functions('hpl.ast.expressions.HplExpression.type_check_references', 'hpl.ast.expressions.HplDataAccess.type_check_references', 'hpl.ast.expressions.HplFieldAccess/HplArrayAccess._get_next_token',
                 'hpl.types.ArrayType.contains_index', 'hpl.types.MessageType.contains_name/get_type_of/leaf_fields', 'hpl.types.RangedType.*', 'hpl.types.EnumeratedType._check_values',
                 'hpl.ast.events.*.type_check_references', 'hpl.ast.properties.HplProperty.type_check_references')
    t0 = time.time()
    items = [(ti, 0) for ti in range(len(sym_templates()))]
    results = [x for c in par.pmap_chunks(worker_sym, items, 1) for x in c]
    paths = 0
    for (ti, _), r in results:
        paths += r['paths']
        ck.query('unsat', r['solver_s'], r['queries'])
        ck.obligation((not r['bad']) if not r['mismatch'] else None)
        for mm in r['mismatch'][:3]:
            ck.undecided(f'proxy model disagrees with the real code: {mm}')
        for sig, desc, why in r['bad']:
            ck.counterexample(sig, f'{desc}: {why}', {'kind': 'sym', 'template': ti, 'desc': desc})
    ck.engine('SP', templates=len(items), paths=paths, wall_s=round(time.time() - t0, 1), bounds='field name: any; fixed length L in [-1,4]; literal index i in [-2,5]')
    int_tokens(ck)
    constructors(ck)
    navigation(ck)
    fams = S.typed_terms(ck.tier)
    specs = fams['numbers'] + fams['booleans-depth1'] + fams['booleans-depth2'][:: (40 if ck.tier == 'quick' else 6)]
    t0 = time.time()
    results = [x for c in par.pmap_chunks(worker, specs, 25) for x in c]
    inj = 0
    for spec, (found, n) in results:
        if n < 0:
            ck.undecided(found[0][1])
            continue
        inj += n
        ck.obligation(not found)
        for sig, what, rep in found:
            ck.counterexample(sig, what, rep)
    # the property-level entry point without an alias entry in msg_types (recorded defect)
    init()
    p = {'scope': 'globally', 'pattern': 'response', 'activator': None, 'terminator': None, 'trigger': ('ev', 't1', 'A', None),
         'behaviour': ('ev', 't2', None, ('bin', '<', ('fa', ('var', 'A'), 'x'), ('f', 'y'))), 'max_time': None, 'meta': None}
    try:
        props.build_property(p).type_check_references({'t1': TOK[1], 't2': TOK[0]})
        ck.obligation(True)
    except Exception as e:
        ck.obligation(False)
        ck.counterexample(KNOWN_ALIAS if 'no type token' in str(e) else f'alias:{type(e).__name__}', f'«t1 as A causes t2 {{@A.x < y}}».type_check_references({{t1, t2}}) raises {type(e).__name__}: {short(e, 80)}', {'kind': 'alias'})
    ck.engine('fault-injection', predicates=len(specs), injected=inj, wall_s=round(time.time() - t0, 1))
    ck.sample({'symbolic_template': 'ms[i].r > 0', 'symbolic': ['field name r', 'literal index i', 'fixed length L']})
    ck.sample({'fault_injection_host': gen.render(specs[len(specs) // 2])})
    ck.bound('SP', '17 templates (every use kind: number/bool/string/message/array/index/range bound/set element/function argument/quantifier domain/nested index); field name unbounded, L in [-1,4], i in [-2,5]')
    ck.bound('fault injection', f'{inj} single-fault texts over {len(specs)} well-typed predicates of the C04 generator; faults: unknown field at any depth, a field that exists only in the other message, field/array confusion (both ways), literal index past the end; every valid predicate also re-checked against a type-rotated schema on a fresh and on an already-checked object')
    ck.bound('integer tokens', 'all values of each bit width (bit-vector theory): complete')
    ck.coverage['evaluations'] = inj + paths
    ck.coverage['distinct_nontrivial'] = len(specs)
    ck.coverage['rule'] = 'one evaluation = one SP path or one single-fault text through the real schema check; non-trivial = distinct host predicate'
    ck.outside('references rooted at a quantified variable over an array of messages; unknown topic names; schemas other than the fixed ones')
    return ck.finish()


def replay(data) -> int:
    print('recorded:', data.get('what'))
    if data.get('kind') == 'fault':
        print('re-run  :', schema_check(rw.tuplify(data['spec'])))
    return 1
