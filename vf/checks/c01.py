"""C01 Parsing builds exactly the tree the grammar assigns to the text — decided compositionally:

  text -> tokens   LX  z3 string/regex theory over the LIVE lexer: no keyword terminal cuts a longer word (all strings), terminal
                       languages equal the documented finite sets
  tokens -> tree   GX  CYK-in-z3 over the LIVE rule set vs the frozen reference grammar: same language and same operator
                       constituents (precedence, associativity, extents) for ALL token strings up to the bound
  tree -> AST      SP  the real callbacks with a SYMBOLIC operator token / bracket tokens: operator identity, operand order,
                       range exclusivity, literal conversion, event roles
  floats           FP  ms -> s conversion and printing (shared with C06)
plus translator validation (real token streams derive in the extracted rule set) and an end-to-end differential run through the
real parser on generated trees with minimal / redundant parentheses and arbitrary layout.
"""
from __future__ import annotations

import itertools
import math
import random
import re
import time
from pathlib import Path
from typing import Any, Dict, List, Optional, Tuple

import z3

from vf import families, gen, gx, lx, par, props, refgrammar, sem, sp
from vf.common import Check, short

DOCUMENTED = {
    'RELATIONAL_OPERATOR': ['=', '!=', '<', '<=', '>', '>=', 'in'], 'TIME_UNIT': ['s', 'ms'], 'CONSTANT': ['PI', 'INF', 'NAN', 'E'],
    'IF_OPERATOR': ['implies', 'iff'], 'OR_OPERATOR': ['or'], 'AND_OPERATOR': ['and'], 'NOT_OPERATOR': ['not'], 'QUANT_OPERATOR': ['forall', 'exists'],
    'ADD_OPERATOR': ['+', '-'], 'MULT_OPERATOR': ['*', '/'], 'POWER_OPERATOR': ['**'], 'MINUS_OPERATOR': ['-'],
    'L_RANGE_EXC': ['!['], 'L_RANGE_INC': ['['], 'R_RANGE_EXC': [']!'], 'R_RANGE_INC': [']'], 'TRUE': ['True'], 'FALSE': ['False'],
    '_KW_TO': ['to'], '_KW_IN': ['in'], '_KW_AS': ['as'], '_KW_OR': ['or'], '_KW_WITHIN': ['within'], '_KW_NO': ['no'], '_KW_SOME': ['some'],
    '_KW_REQUIRES': ['requires'], '_KW_CAUSES': ['causes'], '_KW_FORBIDS': ['forbids'], '_KW_AFTER': ['after'], '_KW_UNTIL': ['until'], '_KW_GLOBALLY': ['globally'],
}
SAMPLE_LEXEME = {'CNAME': 'foo', 'CHANNEL_NAME': 'top', 'VAR_REF': '@v', 'NUMBER': '1', 'ESCAPED_STRING': '"s"', 'LBRACE': '{', 'RBRACE': '}', 'LPAR': '(', 'RPAR': ')',
                 'COMMA': ',', 'COLON': ':', 'DOT': '.', 'HASH': '#', 'ID': 'id', 'TITLE': 'title', 'DESCRIPTION': 'description'}


def entry_points():
    from hpl.parser import HplParser
    return [('expression', HplParser.expression_parser(), 'hpl_expression'), ('predicate', HplParser.predicate_parser(), 'hpl_predicate'),
            ('property', HplParser.property_parser(), 'hpl_property'), ('file', HplParser.specification_parser(), 'hpl_file')]


def lexeme(term: str, variant: int = 0) -> str:
    if term in DOCUMENTED:
        v = DOCUMENTED[term]
        return v[variant % len(v)]
    return SAMPLE_LEXEME.get(term, term)


def render_tokens(names: List[str]) -> str:
    return ' '.join(lexeme(n, i) for i, n in enumerate(names) if n not in ('OPEN', 'CLOSE'))


def syntactically_accepted(parser, text: str) -> Optional[bool]:
    from hpl.errors import HplSyntaxError
    try:
        parser.parse(text)
        return True
    except HplSyntaxError:
        return False
    except Exception:
        return True  # typed / sanity rejection happens after the grammar accepted the token string


# ---------------------------------------------------------------------------------------------------------------
# corpus: state -> (prefix, suffix) for replaying lexer witnesses; real token streams for translator validation
# ---------------------------------------------------------------------------------------------------------------

def corpus_texts() -> Dict[str, List[str]]:
    from vf.checks.c06 import property_texts
    ptexts = property_texts('quick')[::9]
    ptexts += ['# id: p1\n# title: "t"\n# description: "d"\nglobally: no a {x > 1} within 100 ms',
               'after a as A {not p} until (b or c {forall v in xs: @v in [0 to @A.n]!}): some d {s = "a" implies x ** 2 > -y}',
               'globally: a {x in {1, 2, f(x)}} causes b as B {m.k[1].z != PI} within 2 s',
               'until q {exists w in ![1 to 3]: xs[@w] >= len(xs)}: b {x iff y} requires (a or b2) within 1 s']
    specs = families.slot_family()[::3] + families.call_shapes()[::11]
    etexts = [gen.render(s) for s in specs if gen.parseable(s)]
    etexts += ['a + b * c ** d - -e / f', 'not a and b or c implies d iff e', 'forall i in xs: @i > 0 and p', 'x in ![1 to 2]! = True', 'f(x).y[0][1].z']
    return {'expression': etexts, 'predicate': ['{ ' + t + ' }' for t in etexts], 'property': ptexts, 'file': ['\n\n'.join(ptexts[i:i + 3]) for i in range(0, len(ptexts) - 3, 5)]}


def state_map(parser, texts: List[str]):
    """parser state -> (prefix text, rest text) reached in the corpus, by stepping Lark's interactive parser token by token"""
    out: Dict[int, Tuple[str, str]] = {}
    streams = []
    for t in texts:
        try:
            ip = parser._lark.parse_interactive(t)
            toks = []
            pos0 = ip.parser_state.position
            out.setdefault(pos0, ('', t))
            for tok in ip.lexer_thread.lex(ip.parser_state):
                ip.feed_token(tok)
                toks.append(tok)
                end = tok.end_pos
                out.setdefault(ip.parser_state.position, (t[:end], t[end:]))
            streams.append((t, [k.type for k in toks]))
        except Exception:
            continue
    return out, streams


# ---------------------------------------------------------------------------------------------------------------
# SP: callbacks with symbolic tokens
# ---------------------------------------------------------------------------------------------------------------

def callbacks_part(ck: Check):
    from hpl.ast.expressions import HplLiteral
    from hpl.parser import PropertyTransformer
    from vf import sf
    T = PropertyTransformer()
    levels = ('condition', 'disjunction', 'conjunction', 'atomic_condition', 'expr', 'term', 'factor')
    level_ops = {'condition': DOCUMENTED['IF_OPERATOR'], 'disjunction': ['or'], 'conjunction': ['and'], 'atomic_condition': DOCUMENTED['RELATIONAL_OPERATOR'],
                 'expr': DOCUMENTED['ADD_OPERATOR'], 'term': DOCUMENTED['MULT_OPERATOR'], 'factor': DOCUMENTED['POWER_OPERATOR']}
    all_ops = sorted({o for v in level_ops.values() for o in v})
    paths = 0
    ok_all = True
    for level in levels:
        op = sp.SymName(z3.Int('op'), 'op')
        ids = [sp._const_id(o) for o in all_ops]
        pre = [z3.Or(*[op.t == i for i in ids])]

        def fn():
            a = gen.build(('f', 'a'))
            b = gen.build(('f', 'b')) if level not in ('atomic_condition',) else gen.build(('f', 'b'))
            try:
                e = getattr(T, level)([a, op, b])
            except TypeError:
                return ('typeerror',)
            return ('ok', e.operator.token, str(e.operand1), str(e.operand2), type(e).__name__)

        ps, ctx = sf.explore(fn, 0, pre)
        paths += len(ps)
        ck.query('unsat', ctx.solver_s, ctx.queries)
        for pc, (kind, val) in ps:
            m = sp.model_of(z3.And(pc, *pre))
            tok = sp.concretise(m, [op])['op']
            if kind == 'raise':
                ok_all = False
                ck.counterexample(f'callback:{level}:{val}', f'{level}([a, {tok!r}, b]) raised {val}', {'kind': 'callback', 'level': level, 'token': tok})
            elif val[0] == 'ok' and not (val[1] == tok and val[2] == 'a' and val[3] == 'b' and val[4] == 'HplBinaryOperator'):
                # `in` needs a compound right operand: b is then cast to an array, still printed 'b'
                ok_all = False
                ck.counterexample(f'callback:{level}:wrong-tree', f'{level}([a, {tok!r}, b]) built {val}', {'kind': 'callback', 'level': level, 'token': tok})
    # single child passes through unchanged
    for level in levels:
        a = gen.build(('f', 'a'))
        if getattr(T, level)([a]) is not a:
            ok_all = False
            ck.counterexample(f'callback:{level}:single-child', f'{level}([a]) does not return its only child', {'kind': 'callback', 'level': level})
    # ranges: exclusivity from the bracket tokens
    for lb, rb in itertools.product(DOCUMENTED['L_RANGE_EXC'] + DOCUMENTED['L_RANGE_INC'], DOCUMENTED['R_RANGE_EXC'] + DOCUMENTED['R_RANGE_INC']):
        r = T.range_literal(lb, gen.build(('lit', 1)), gen.build(('f', 'n')), rb)
        if (r.exclude_min, r.exclude_max, str(r.min_value), str(r.max_value)) != (lb == '![', rb == ']!', '1', 'n'):
            ok_all = False
            ck.counterexample(f'callback:range:{lb}{rb}', f'range_literal({lb!r}, 1, n, {rb!r}) built {r!r}', {'kind': 'callback'})
    # literals and constants
    for tok, want in (('12', 12), ('0', 0), ('1.5', 1.5), ('2e3', 2000.0), ('.5', 0.5), ('5.', 5.0), ('1e400', float('inf')), ('9007199254740993', 9007199254740993),
                      ('12345678901234567891', 12345678901234567891), ('1' + '0' * 400, 10 ** 400), ('007', 7), ('1e1', 10.0), ('10', 10)):
        try:
            lit = T.number(tok)
        except Exception as e:
            ok_all = False
            ck.counterexample(f'callback:number:{tok[:24]}', f'number({tok[:40]!r}) raised {type(e).__name__}: {short(e, 80)}', {'kind': 'callback'})
            continue
        if lit.value != want or type(lit.value) is not type(want) or lit.token != tok:
            ok_all = False
            ck.counterexample(f'callback:number:{tok}', f'number({tok!r}) = {lit!r}', {'kind': 'callback'})
    for c in DOCUMENTED['CONSTANT']:
        lit = T.number_constant(c)
        want = {'PI': math.pi, 'E': math.e, 'INF': float('inf')}.get(c)
        if (c == 'NAN' and not (isinstance(lit.value, float) and lit.value != lit.value)) or (c != 'NAN' and lit.value != want) or lit.token != c:
            ok_all = False
            ck.counterexample(f'callback:constant:{c}', f'number_constant({c!r}) = {lit!r}', {'kind': 'callback'})
    if T.boolean('True').value is not True or T.boolean('False').value is not False or T.string('"a b"').token != '"a b"':
        ok_all = False
        ck.counterexample('callback:boolean-string', 'boolean()/string() literal conversion', {'kind': 'callback'})
    # events, scopes, patterns: roles and defaults
    a, b, q = (T.event(n, None, None) for n in ('a', 'b', 'q'))
    INF = float('inf')
    chk = [
        ('existence-0', T.existence(b, 0.0), ('EXISTENCE', None, b, 0.0)), ('absence-0', T.absence(b, 0.0), ('ABSENCE', None, b, 0.0)),
        ('response-0', T.response(a, b, 0.0), ('RESPONSE', a, b, 0.0)), ('prevention-0', T.prevention(a, b, 0.0), ('PREVENTION', a, b, 0.0)),
        ('requirement-0', T.requirement(b, a, 0.0), ('REQUIREMENT', a, b, 0.0)),
        ('existence', T.existence(b, None), ('EXISTENCE', None, b, INF)), ('absence', T.absence(b, 2.0), ('ABSENCE', None, b, 2.0)),
        ('response', T.response(a, b, None), ('RESPONSE', a, b, INF)), ('prevention', T.prevention(a, b, 0.5), ('PREVENTION', a, b, 0.5)),
        ('requirement', T.requirement(b, a, None), ('REQUIREMENT', a, b, INF)),
    ]
    for nm, pt, (kind, trig, beh, mt) in chk:
        if (pt.pattern_type.name, pt.trigger, pt.behaviour, pt.max_time, pt.min_time) != (kind, trig, beh, mt, 0.0):
            ok_all = False
            ck.counterexample(f'callback:{nm}:roles', f'{nm} callback built {pt!r}', {'kind': 'callback'})
    for nm, sc, want in (('globally', T.global_scope([]), ('GLOBAL', None, None)), ('after', T.after_until(a, None), ('AFTER', a, None)),
                         ('after_until', T.after_until(a, q), ('AFTER_UNTIL', a, q)), ('until', T.until(q), ('UNTIL', None, q))):
        if (sc.scope_type.name, sc.activator, sc.terminator) != want:
            ok_all = False
            ck.counterexample(f'callback:{nm}:scope', f'{nm} callback built {sc!r}', {'kind': 'callback'})
    for w in (2, 3, 4, 5):
        evs = [T.event(f'e{i}', None, None) for i in range(w)]
        d = T.event_disjunction(list(evs))
        flat = list(d.simple_events())
        nested_right = True
        cur = d
        for i in range(w - 2):
            nested_right = nested_right and type(cur).__name__ == 'HplEventDisjunction' and cur.event1 is evs[i] and type(cur.event2).__name__ == 'HplEventDisjunction'
            if not nested_right:
                break
            cur = cur.event2
        if len(flat) != w or any(x is not y for x, y in zip(flat, evs)) or not nested_right:
            ok_all = False
            ck.counterexample(f'callback:event_disjunction:{w}', f'event_disjunction of {w} events does not keep membership/order (right-nested)', {'kind': 'callback'})
    ev = T.event('t', 'A', None)
    if ev.alias != 'A' or ev.name != 't' or not ev.predicate.is_vacuous or not ev.predicate.is_true:
        ok_all = False
        ck.counterexample('callback:event', f'event(t, A, None) = {ev!r}', {'kind': 'callback'})
    ck.obligation(ok_all)
    ck.engine('SP-callbacks', operator_token_paths=paths, levels=len(levels))


# ---------------------------------------------------------------------------------------------------------------
# differential run through the real parser
# ---------------------------------------------------------------------------------------------------------------

PREC = {'implies': 0, 'iff': 0, 'or': 1, 'and': 2, '=': 4, '!=': 4, '<': 4, '<=': 4, '>': 4, '>=': 4, 'in': 4, '+': 5, '-': 5, '*': 6, '/': 6, '**': 7}


def render_min(spec, ctx: int = 0, right: bool = False, rnd=None) -> str:
    """minimal parenthesisation from the documented precedence table; optional random layout / redundant parentheses"""
    def ws():
        return ' ' if rnd is None else rnd.choice([' ', '  ', '\n', '\t ', ' '])

    def paren(s, need):
        if need or (rnd is not None and rnd.random() < 0.15):
            return f'({s})'
        return s
    k = spec[0]
    if k == 'bin':
        op = spec[1]
        p = PREC[op]
        if p == 4:
            s = f'{render_min(spec[2], 5, False, rnd)}{ws()}{op}{ws()}{render_min(spec[3], 5, False, rnd)}'
            return paren(s, ctx > 4 or (ctx == 4))
        s = f'{render_min(spec[2], p, False, rnd)}{ws()}{op}{ws()}{render_min(spec[3], p + 1, True, rnd)}'
        return paren(s, p < ctx)
    if k == 'not':
        return paren(f'not{ws()}{render_min(spec[1], 3, False, rnd)}', ctx > 3)
    if k == 'q':
        return paren(f'{spec[1]}{ws()}{spec[2]}{ws()}in{ws()}{render_min(spec[3], 9, False, rnd)}:{ws()}{render_min(spec[4], 3, False, rnd)}', ctx > 3)
    if k == 'neg':
        return f'-{render_min(spec[1], 8, False, rnd)}'
    if k == 'lit':
        v = spec[1]
        if v is True or v is False:
            return str(v)
        return gen.num_token(v) if not str(v).startswith('-') else f'-{gen.num_token(-v)}'
    if k == 'call':
        return f'{spec[1]}({", ".join(render_min(a, 5, False, rnd) for a in spec[2:])})'
    if k == 'set':
        return '{' + f',{ws()}'.join(render_min(a, 5, False, rnd) for a in spec[1:]) + '}'
    if k == 'range':
        return f'{"![" if spec[3] else "["}{render_min(spec[1], 5, False, rnd)}{ws()}to{ws()}{render_min(spec[2], 5, False, rnd)}{"]!" if spec[4] else "]"}'
    if k == 'fa':
        return f'{render_min(spec[1], 9, False, rnd)}.{spec[2]}'
    if k == 'idx':
        return f'{render_min(spec[1], 9, False, rnd)}[{render_min(spec[2], 5, False, rnd)}]'
    return gen.render(spec)


EP = None


def diff_worker(chunk):
    global EP
    if EP is None:
        from hpl.parser import expression_parser
        EP = expression_parser()
    out = []
    for i, spec in chunk:
        rnd = random.Random(i)
        try:
            want = gen.build_direct(spec)  # public constructors only: independent of the parser callbacks under test
        except Exception:
            out.append((spec, None))
            continue
        bad = None
        for text in (render_min(spec), render_min(spec, rnd=rnd), gen.render(spec)):
            try:
                got = EP.parse(text)
            except Exception as e:
                bad = f'«{text}» is rejected: {type(e).__name__}: {short(e, 80)}'
                break
            if got != want and not _nan_equal(got, want):
                bad = f'«{text}» parses to «{got}» but the documented grammar assigns «{want}»'
                break
        out.append((spec, bad))
    return out


def _nan_equal(a, b):
    from vf.checks.c06 import nan_tolerant_equal
    return nan_tolerant_equal(a, b)


# ---------------------------------------------------------------------------------------------------------------

def main() -> int:
    ck = Check('C01', 'other', 'compositional: LX (z3 regex theory over the live lexer tables), GX (CYK-in-z3 over the live rule set vs a frozen reference grammar, plain and with explicit '
               'operator brackets), SP (real callbacks on a symbolic operator token), FP (ms/s arithmetic), plus translator validation and an end-to-end differential run')
    ck.functions('hpl.grammar.HPL_GRAMMAR/PREDICATE_GRAMMAR (via Lark: terminals, per-state scanners, expanded rules)', 'hpl.parser.PropertyTransformer.*', 'hpl.parser.HplParser.parse',
                 'src/hpl/grammars/*.lark', 'scripts/build_grammars.py (concatenation logic replicated)')
    N = 13 if ck.tier == 'quick' else 17
    eps = entry_points()
    corpus = corpus_texts()
    # ---- LX
    t0 = time.time()
    lexq = 0
    seen_scanners = set()
    for name, parser, start in eps:
        model = lx.LexModel(parser._lark, name)
        probs = lx.validate_translation(model)
        for p in probs[:3]:
            ck.undecided(f'regex translation disagrees with Python re: {p}')
        smap, streams = state_map(parser, corpus[name])
        state_of_scanner = {}
        for st, key in model.states.items():
            state_of_scanner.setdefault(key, []).append(st)
        for sc, T, kind, v, w, p, dt in lx.keyword_split_queries(model):
            sig_sc = (sc.key(), T.name)
            if sig_sc in seen_scanners:
                continue
            seen_scanners.add(sig_sc)
            lexq += 1
            ck.query(v, dt)
            if v == 'unsat':
                ck.obligation(True)
                continue
            if v == 'unknown':
                ck.obligation(None)
                ck.undecided(f'LX {name} scanner of state {sc.state}, terminal {T.name}: z3 unknown')
                continue
            # replay: put the witness word where that lexer state is reached in the corpus
            replay = None
            for st in state_of_scanner.get(sc.key(), []):
                if st in smap:
                    replay = smap[st]
                    break
            if replay is None:
                ck.obligation(None)
                ck.undecided(f'LX witness {w!r} (terminal {T.name} cuts it after {p!r}) in a lexer state the corpus does not reach: cannot replay')
                continue
            prefix, rest = replay
            text = f'{prefix} {w} {_rest_after_first_token(rest)}'
            acc = syntactically_accepted(parser, text)
            try:
                toks = [t.type for t in parser._lark.lex(text)] if False else None
            except Exception:
                toks = None
            cut = _is_cut(parser, prefix, w, p)
            if not cut:
                ck.obligation(None)
                ck.undecided(f'LX witness {w!r} for {T.name} does not replay as a cut on the real lexer')
            elif kind == 'a':
                ck.obligation(False)
                ck.counterexample(f'keyword-prefix-split:{T.name}', f'the name {w!r} is lexed as {T.name} {p!r} followed by the rest, where a name is acceptable (text «{short(text, 120)}»)',
                                  {'kind': 'lex', 'text': text, 'word': w, 'terminal': T.name})
            elif acc:
                ck.obligation(False)
                ck.counterexample(f'keyword-prefix-split-accepted:{T.name}', f'«{short(text, 120)}» is accepted although {w!r} is one word: {T.name} matched its prefix {p!r}',
                                  {'kind': 'lex', 'text': text, 'word': w, 'terminal': T.name})
            else:
                ck.obligation(True)  # the word is cut, but the text is rejected with a syntax error: what the statement asks for
        # documented finite languages
        for tname, strings in DOCUMENTED.items():
            if tname not in model.terms:
                continue
            v, wit = lx.language_equals(model.terms[tname], strings)
            ck.query(v)
            if v == 'sat':
                py = re.fullmatch(re.sub(r'\(\?![^)]*\)', '', model.terms[tname].regexp.replace('\\b', '')), wit) is not None
                ck.obligation(False)
                ck.counterexample(f'terminal-language:{tname}', f'terminal {tname} {"accepts" if py else "rejects"} {wit!r}; documented set is {strings}', {'kind': 'terminal', 'name': tname, 'witness': wit})
            elif v == 'unknown':
                ck.obligation(None)
                ck.undecided(f'terminal language {tname}: z3 unknown')
            else:
                ck.obligation(True)
        # WS is accepted and ignored in every state
        for sc in model.scanners:
            if 'WS' not in [t.name for t in sc.terms] or 'WS' not in sc.ignore:
                ck.counterexample(f'whitespace:{name}:{sc.state}', f'lexer state {sc.state} of the {name} parser does not accept/ignore whitespace', {'kind': 'ws'})
        # translator validation: real token streams are derivable in the extracted rule set
        live = gx.Cfg.from_lark(parser._lark, start)
        nbad = 0
        for text, types in streams[:60]:
            if len(types) <= 40 and not gx.derives(live, types):
                nbad += 1
        if nbad:
            ck.undecided(f'{nbad} accepted corpus texts are not derivable in the rule set extracted from Lark ({name}): the GX model is wrong')
    ck.engine('LX', keyword_queries=lexq, wall_s=round(time.time() - t0, 1))
    # exported operator constants vs terminal languages
    import hpl.grammar as G
    for const, tname in (('IN_OPERATOR', '_KW_IN'), ('NOT_OPERATOR', 'NOT_OPERATOR'), ('OR_OPERATOR', 'OR_OPERATOR'), ('AND_OPERATOR', 'AND_OPERATOR')):
        if getattr(G, const, None) not in DOCUMENTED[tname]:
            ck.counterexample(f'exported-constant:{const}', f'hpl.grammar.{const} = {getattr(G, const, None)!r} is not the lexeme of {tname}', {'kind': 'const'})
    for const, want in (('IMPLIES_OPERATOR', 'implies'), ('IFF_OPERATOR', 'iff'), ('ALL_OPERATOR', 'forall'), ('SOME_OPERATOR', 'exists')):
        if getattr(G, const, None) != want:
            ck.counterexample(f'exported-constant:{const}', f'hpl.grammar.{const} = {getattr(G, const, None)!r}, documented {want!r}', {'kind': 'const'})
    # ---- GX
    t0 = time.time()
    for name, parser, start in eps:
        live = gx.Cfg.from_lark(parser._lark, start)
        ref = refgrammar.reference(name)
        if live.terminals != ref.terminals:
            ck.counterexample(f'token-alphabet:{name}', f'{name}: tokens only in the live grammar {sorted(live.terminals - ref.terminals)}, only in the reference {sorted(ref.terminals - live.terminals)}', {'kind': 'alphabet'})
        for label, lv, rf, bound in (('language', live, ref, min(N, 11)), ('structure', gx.bracketed(live), gx.bracketed(ref), N)):
            for n in range(1, bound + 1):
                v, names, side, dt = gx.compare(lv, rf, n)
                ck.query(v, dt)
                if v == 'unsat':
                    ck.obligation(True)
                    continue
                if v == 'unknown':
                    ck.obligation(None)
                    ck.undecided(f'GX {name} {label} n={n}: z3 unknown')
                    break
                text = render_tokens(names)
                acc = syntactically_accepted(parser, text)
                ck.obligation(False)
                if label == 'language':
                    if acc == (side == 'live'):
                        ck.counterexample(f'grammar-language:{name}:{"accepts-undocumented" if side == "live" else "rejects-documented"}',
                                          f'{name} parser {"accepts" if acc else "rejects"} «{text}» (tokens {names}); the documented grammar does the opposite', {'kind': 'gx', 'text': text, 'tokens': names})
                    else:
                        ck.undecided(f'GX witness {names} does not replay on the real {name} parser (accepted={acc}, live rule set derives={side == "live"})')
                else:
                    plain = [x for x in names if x not in ('OPEN', 'CLOSE')]
                    ck.counterexample(f'grammar-structure:{name}', f'{name}: for tokens {plain} the live grammar and the documented precedence/associativity assign different operator constituents '
                                      f'(bracketing {" ".join(names)} derivable only in the {side} grammar); text «{text}»', {'kind': 'gx', 'text': text, 'tokens': names})
                break
    ck.engine('GX', bound_tokens=N, wall_s=round(time.time() - t0, 1))
    # packaged .lark sources vs embedded strings
    try:
        import hpl
        gdir = Path(hpl.__file__).parent / 'grammars'
        pre = re.compile(r'\s*//\s*SPDX-License-Identifier:[^\n]+\s*//\s*Copyright[^\n]+\s*')

        def body(fn):
            t = (gdir / fn).read_text(encoding='utf8')
            m = pre.match(t)
            return t[m.end():] if m else t
        tok, pred, prop, fil = body('tokens.lark'), body('predicates.lark'), body('properties.lark'), body('files.lark')
        want_pred = f'\n{pred}\n{tok}\n'
        want_hpl = f'\n{fil}\n{prop}\n{pred}\n{tok}\n'
        if G.PREDICATE_GRAMMAR != want_pred or G.HPL_GRAMMAR != want_hpl:
            ck.counterexample('packaged-grammar-differs', 'hpl.grammar.{PREDICATE,HPL}_GRAMMAR differ from the concatenation of the packaged .lark sources (scripts/build_grammars.py not re-run?)', {'kind': 'packaged'})
            ck.obligation(False)
        else:
            ck.obligation(True)
    except Exception as e:
        ck.undecided(f'cannot compare packaged grammars: {type(e).__name__}: {e}')
    # ---- callbacks, floats
    callbacks_part(ck)
    from vf import fp
    from hpl.parser import PropertyTransformer
    try:
        m = z3.FP('n', fp.F64)
        res = fp.parsed_time(PropertyTransformer.time_amount, m, 'ms')
        res_s = fp.parsed_time(PropertyTransformer.time_amount, m, 's')
        s = z3.Solver()
        s.add(z3.Not(z3.fpIsNaN(m)), z3.Not(z3.fpIsInf(m)))
        s.add(z3.Or(z3.Not(z3.Or(*[z3.And(g, z3.fpEQ(v, z3.fpDiv(fp.RM, m, fp.fconst(1000.0)))) for g, v in res])),
                    z3.Not(z3.Or(*[z3.And(g, z3.fpEQ(v, m)) for g, v in res_s]))))
        r = s.check()
        ck.query('unsat' if r == z3.unsat else 'sat' if r == z3.sat else 'unknown')
        ck.obligation(r == z3.unsat)
        if r == z3.sat:
            ck.counterexample('time-unit-conversion', 'time_amount: N ms is not N/1000 (correctly rounded) or N s is not N for some finite N', {'kind': 'fp'})
    except fp.Unsupported as e:
        ck.undecided(f'time_amount left the translatable fragment: {e}')
    # ---- differential end-to-end
    t0 = time.time()
    sfam = families.simplify_families('quick')
    bfam = families.boolean_families('quick', alias_heavy=True)
    specs = families.slot_family() + families.call_shapes()[::3]
    step = 9 if ck.tier == 'quick' else 2
    for fam in (sfam, bfam):
        for k, v in fam.items():
            specs += v[::step]
    specs += families.random_specs(ck.seed + 1, 2500 if ck.tier == 'quick' else 25000, 5)
    specs = [s for s in families.uniq(specs) if gen.parseable(s)]
    results = [x for c in par.pmap_chunks(diff_worker, list(enumerate(specs)), 100) for x in c]
    nd = 0
    for spec, bad in results:
        nd += 1
        if bad:
            ck.counterexample(f'parse-differs@{short(gen.render(spec), 120)}', bad, {'kind': 'diff', 'spec': spec})
    ck.obligation(all(b is None for _, b in results))
    # properties: text -> AST field by field
    from hpl.parser import property_parser
    pp = property_parser()
    from vf.harness import c11_sx
    npr = 0
    for si, pi, deco in itertools.product(range(4), range(5), range(3)):
        for w in ((1, 1, 1, 1), (2, 2, 3, 2), (3, 1, 2, 4)):
            for mt, unit in ((None, 's'), (2.0, 's'), (250.0, 'ms'), (0.0, 's'), (0.0, 'ms')):
                spec = c11_sx.mk(si, pi, *w, deco, (mt / 1000.0 if unit == 'ms' and mt is not None else mt), None)
                if props.property_verdict(spec) is not None:
                    continue
                text = props.render_property(dict(spec, unit=unit, ms_text=repr(mt) if unit == 'ms' else None)) if mt is not None else props.render_property(spec)
                if unit == 'ms' and mt is not None:
                    text = re.sub(r'within .*$', f'within {mt!r} ms', text)
                text = text.replace(' or ', '\n   or ').replace(': ', ' :\n  ', 1)
                npr += 1
                try:
                    got = pp.parse(text)
                    want = props.build_property(spec)
                    if got != want:
                        ck.counterexample(f'property-parse-differs@{short(text, 100)}', f'«{text}» parses to «{got}», expected «{want}»', {'kind': 'prop', 'text': text})
                except Exception as e:
                    ck.counterexample(f'property-rejected@{short(text, 100)}', f'«{text}» rejected: {type(e).__name__}: {short(e, 100)}', {'kind': 'prop', 'text': text})
    ck.engine('differential', expressions=nd, properties=npr, wall_s=round(time.time() - t0, 1))
    ck.sample({'reference_precedence': [f'{k}: {o}' for k, o in refgrammar.PRECEDENCE]})
    ck.sample({'differential_text': render_min(specs[len(specs) // 2], rnd=random.Random(3))})
    ck.bound('LX', 'all strings (unbounded alphabet; witness words capped at 12 characters) for every distinct scanner of every parser state of the four entry points')
    ck.bound('GX', f'all token strings of length <= {min(N, 11)} (language) and all bracketed strings of length <= {N} (operator constituents) for the four start symbols')
    ck.bound('differential', f'{nd} expression trees (families + seeded random, depth <= 5) x 3 renderings (minimal parentheses, random layout with redundant parentheses, fully parenthesised); {npr} properties')
    ck.coverage['evaluations'] = nd * 3 + npr
    ck.coverage['distinct_nontrivial'] = nd + npr
    ck.coverage['rule'] = 'one evaluation = one rendered text through the real parser compared with the tree the documented grammar assigns; distinct = distinct abstract tree'
    ck.assume('Lark builds and runs an LALR(1) table that implements the rule set it exposes as Lark.rules (cross-checked: real token streams of the corpus derive in the extracted rule set)')
    ck.outside('token strings longer than the GX bound; Lark internals; characters outside ASCII inside names')
    return ck.finish()


def _rest_after_first_token(rest: str) -> str:
    """drop the token the witness word replaces"""
    r = rest.lstrip()
    m = re.match(r'[A-Za-z_@/~][A-Za-z0-9_/]*|\S', r)
    return r[m.end():] if m else r


def _is_cut(parser, prefix: str, word: str, p: str) -> bool:
    """does the real lexer, after `prefix`, return a token that is the strict prefix p of word?"""
    text = f'{prefix} {word}'
    try:
        ip = parser._lark.parse_interactive(text)
        for tok in ip.lexer_thread.lex(ip.parser_state):
            if tok.start_pos == len(prefix) + 1:
                return tok.value == p and tok.end_pos < len(text)
            ip.feed_token(tok)
    except Exception:
        return False
    return False


def replay(data) -> int:
    print('recorded:', data.get('what'))
    if 'text' in data:
        for name, parser, start in entry_points():
            try:
                print(f'{name:10s}:', parser.parse(data['text']))
            except Exception as e:
                print(f'{name:10s}:', type(e).__name__, str(e).splitlines()[0][:100])
    return 1
