"""C05 Definite type errors are always rejected.

(a) SF: for every construction form the 'sound' lemma is decided for ALL child type sets: construction succeeds only if every child has a
    possible type inside its parameter type (jointly for unified operands), and the only exception raised is TypeError.
(b) injection: at every argument position of every tree of the families exactly one definite clash is injected (wrong-typed literal,
    operator result, function result, compound/primitive confusion), plus same-reference clashes and non-boolean roots; construction
    through the parser callbacks AND the real text parser must raise TypeError.
"""
from __future__ import annotations

import time
from typing import Any, Dict, List, Tuple

from vf import families, gen, par, rw, sem, symtypes as ST
from vf.common import Check, short
from vf.families import L, P, Q, X, Y

CLASH = {
    ST.NUMBER: [L(True), ('str', 'a'), ('bin', 'and', P, Q), ('call', 'bool', X), ('set', L(1)), ('bin', '<', X, L(1))],
    ST.BOOL: [L(1), ('str', 'a'), ('bin', '+', X, L(1)), ('call', 'abs', X), ('range', L(0), L(1), False, False), ('neg', X)],
    ST.PRIMITIVE: [('set', L(1)), ('range', L(0), L(1), False, False)],
    ST.COMPOUND: [L(1), L(True), ('bin', '+', X, L(1)), ('bin', 'and', P, Q), ('str', 'a')],
    ST.MESSAGE: [L(1), ('bin', '+', X, L(1)), ('set', L(1)), ('str', 'a')],
    ST.ARRAY: [L(1), L(True), ('bin', '<', X, L(1)), ('set', L(1))],
}


def positions(spec, path=()) -> List[Tuple[Tuple[int, ...], int]]:
    """(path, parameter type) of every argument position"""
    out = []
    k = spec[0]

    def child(i, param):
        out.append((path + (i,), param))
        out.extend(positions(spec[i], path + (i,)))

    if k == 'bin':
        p1, p2, _ = ST.BINARY[spec[1]]
        child(2, p1)
        child(3, p2)
    elif k == 'neg':
        child(1, ST.NUMBER)
    elif k == 'not':
        child(1, ST.BOOL)
    elif k == 'set':
        for i in range(1, len(spec)):
            child(i, ST.PRIMITIVE)
    elif k == 'range':
        child(1, ST.NUMBER)
        child(2, ST.NUMBER)
    elif k == 'call':
        n = len(spec) - 2
        for ps, var, r in ST.FUNCTIONS[spec[1]]:
            if len(ps) == n or (var is not None and len(ps) <= n):
                params = list(ps) + [var] * (n - len(ps))
                for i, pm in enumerate(params):
                    child(2 + i, pm)
                break
    elif k == 'q':
        child(3, ST.COMPOUND)
        child(4, ST.BOOL)
    elif k == 'idx':
        child(1, ST.ARRAY)
        child(2, ST.NUMBER)
    elif k == 'fa':
        child(1, ST.MESSAGE)
    return out


def get(spec, path):
    for i in path:
        spec = spec[i]
    return spec


def put(spec, path, new):
    if not path:
        return new
    i = path[0]
    return spec[:i] + (put(spec[i], path[1:], new),) + spec[i + 1:]


def uses_bound_var(spec) -> bool:
    return spec[0] == 'var' and spec[1] in ('v', 'w', 'u') or any(uses_bound_var(s) for s in spec[1:] if isinstance(s, tuple))


def attempt(spec, as_pred: bool):
    """'TypeError' | 'accepted' | other exception name — through the callbacks and, when the spec has concrete syntax, the real parser"""
    from hpl.ast.predicates import HplPredicateExpression
    from hpl.parser import condition_parser, expression_parser
    res = []
    try:
        e = gen.build(spec)
        if as_pred:
            HplPredicateExpression(e)
        res.append('accepted')
    except TypeError:
        res.append('TypeError')
    except Exception as ex:
        res.append(type(ex).__name__)
    if gen.parseable(spec):
        try:
            (PP if as_pred else EP).parse(gen.render(spec))
            res.append('accepted')
        except TypeError:
            res.append('TypeError')
        except Exception as ex:
            # where the grammar itself cannot express the clash (e.g. a field of a literal) a syntax error is the rejection
            res.append('TypeError' if type(ex).__name__ == 'HplSyntaxError' else type(ex).__name__)
    return res


EP = PP = None


def init_parsers():
    global EP, PP
    if EP is None:
        from hpl.parser import condition_parser, expression_parser
        EP, PP = expression_parser(), condition_parser()


def case(spec):
    init_parsers()
    found = []
    n = 0
    try:
        base = gen.build(spec)
    except Exception:
        return found, 0
    text = str(base)
    for path, param in positions(spec):
        old = get(spec, path)
        if uses_bound_var(old):
            continue  # replacing the only use of a quantified variable turns the rejection into a sanity error
        for c in CLASH.get(param, []):
            inj = put(spec, path, c)
            n += 1
            for r in attempt(inj, False):
                if r != 'TypeError':
                    found.append((f'{"accepted-clash" if r == "accepted" else "wrong-exception:" + r}@{gen.render(inj)}',
                                  f'«{gen.render(inj)}» ({gen.render(c)} injected where {param_name(param)} is required) -> {r}', {'kind': 'inject', 'spec': inj}))
    # equality between two definite, different types
    if spec[0] == 'bin' and spec[1] in ('<', '=', '>') and not uses_bound_var(spec):
        for a, b in ((('bin', '+', X, L(1)), ('bin', 'and', P, Q)), (L(1), L(True)), (('str', 'a'), L(2)), (('call', 'abs', X), ('call', 'bool', X))):
            inj = ('bin', 'and', spec, ('bin', '=', a, b))
            n += 1
            for r in attempt(inj, False):
                if r != 'TypeError':
                    found.append((f'accepted-clash@{gen.render(inj)}', f'«{gen.render(inj)}» compares two definite different types -> {r}', {'kind': 'inject', 'spec': inj}))
    # the same reference required at two incompatible types inside one predicate: the required type of an occurrence is
    # read off its POSITION (parameter type of the enclosing operator/function in the re-stated table), not off the library
    if base.data_type.value & ST.BOOL and sem.kind(base) != 'HplLiteral':
        done = 0
        for path, param in positions(spec):
            rs = get(spec, path)
            if rs[0] not in ('f', 'var', 'fa') or uses_bound_var(rs) or param not in (ST.NUMBER, ST.BOOL):
                continue
            other = ('not', rs) if param == ST.NUMBER else ('bin', '<', rs, L(1))
            for inj in (('bin', 'and', spec, other), ('bin', 'or', other, spec)):
                n += 1
                for r in attempt(inj, True):
                    if r != 'TypeError':
                        found.append((f'accepted-reference-clash@{gen.render(inj)}', f'{{{gen.render(inj)}}} uses «{gen.render(rs)}» at two incompatible types -> {r}', {'kind': 'inject', 'spec': inj, 'pred': True}))
            done += 1
            if done >= 4:
                break
    # non-boolean root where a predicate is expected
    if not (base.data_type.value & ST.BOOL):
        n += 1
        for r in attempt(spec, True):
            if r != 'TypeError':
                found.append((f'non-boolean-predicate@{text}', f'{{{text}}} (type {base.data_type!r}) accepted as a predicate -> {r}', {'kind': 'inject', 'spec': spec, 'pred': True}))
    return found[:8], n


def ref_spec(node):
    k = sem.kind(node)
    if k == 'HplVarReference':
        return ('var', node.token[1:])
    if k == 'HplFieldAccess':
        if sem.kind(node.message) == 'HplThisMessage':
            return ('f', node.field)
        inner = ref_spec(node.message)
        return None if inner is None else ('fa', inner, node.field)
    return None


def param_name(p: int) -> str:
    return {ST.NUMBER: 'a number', ST.BOOL: 'a boolean', ST.PRIMITIVE: 'a primitive', ST.COMPOUND: 'an array/set/range', ST.MESSAGE: 'a message', ST.ARRAY: 'an array'}.get(p, str(p))


def worker(chunk):
    out = []
    for spec in chunk:
        try:
            out.append((spec, case(spec)))
        except Exception as e:
            out.append((spec, ([('harness', f'{type(e).__name__}: {short(e, 200)}', {})], -1)))
    return out


def main() -> int:
    ck = Check('C05', 'other', 'SF: the real constructors/parser callbacks run on children with symbolic 7-bit type sets; z3 decides for ALL type sets that construction succeeds only when '
               'every child is compatible with its parameter type and that only TypeError is raised. Plus exhaustive single-clash injection at every argument position of the enumerated trees, through callbacks and the real parser.')
    ck.functions('hpl.ast.expressions.HplExpression._type_check/cast', 'hpl.ast.expressions.FunctionDefinition.check_arguments/FunctionSignature.accepts',
                 'hpl.ast.expressions.* validators/converters', 'hpl.ast.predicates.HplPredicateExpression._check_expression/_all_refs_same_type', 'hpl.ast.predicates.predicate_from_expression',
                 'hpl.parser.PropertyTransformer._lr_binop/negation/negative_number/field_access/array_access/function_call')
    t0 = time.time()
    forms = ST.forms()
    paths = 0
    for f in forms:
        r = ST.run_form(f, lemmas=('sound',))
        paths += r.paths
        ck.query('unsat', r.solver_s, r.queries)
        bad = [l for l in ('sound', 'only-TypeError') if l in r.failures]
        if r.unknown:
            ck.obligation(None)
            ck.undecided(f'SF {f.name}: z3 unknown')
        elif bad:
            ck.obligation(False)
            masks = r.failures[bad[0]]
            what = ST.concrete_replay(f, masks, bad[0])
            if what is None:
                ck.undecided(f'SF counterexample for {f.name} ({bad[0]}, type sets {masks}) does not replay on real DataType values')
            else:
                ck.counterexample(f'{bad[0]}:{f.name}', what, {'kind': 'sf', 'form': f.name, 'masks': masks, 'lemma': bad[0]})
        else:
            ck.obligation(True)
    ck.engine('SF', forms=len(forms), paths=paths, wall_s=round(time.time() - t0, 1))
    sfam = families.simplify_families(ck.tier)
    bfam = families.boolean_families(ck.tier, alias_heavy=True)
    step = 25 if ck.tier == 'quick' else 5
    specs = families.slot_family() + families.call_shapes()
    for fam in (sfam, bfam):
        for k, v in fam.items():
            specs += v[::step] if len(v) > 300 else v[:: max(1, step // 5)]
    specs = families.uniq(specs)
    t0 = time.time()
    results = [x for c in par.pmap_chunks(worker, specs, 30) for x in c]
    inj = 0
    trees = 0
    for spec, (found, n) in results:
        if n < 0:
            ck.undecided(found[0][1])
            continue
        if n == 0:
            continue
        trees += 1
        inj += n
        ck.obligation(not found)
        for sig, what, rep in found:
            ck.counterexample(sig, what, rep)
    # one reference used three times at generic / numeric / boolean / string positions, every order
    init_parsers()
    nre = 0
    for spec, clash in families.reuse_family() + families.reuse_family_quantified():
        nre += 1
        for r in attempt(spec, True):
            if clash and r != 'TypeError':
                ck.counterexample(f'accepted-reference-clash@{gen.render(spec)}', f'{{{gen.render(spec)}}} uses one reference at two incompatible types -> {r}', {'kind': 'inject', 'spec': spec, 'pred': True})
            if not clash and r != 'accepted':
                ck.counterexample(f'rejected-compatible-reuse@{gen.render(spec)}', f'{{{gen.render(spec)}}} uses one reference at compatible types only -> {r}', {'kind': 'inject', 'spec': spec, 'pred': True})
    ck.obligation(True)
    ck.engine('injection', trees=trees, injected_texts=inj, reference_reuse_predicates=nre, wall_s=round(time.time() - t0, 1))
    ck.sample({'injection': gen.render(put(specs[10], positions(specs[10])[0][0], CLASH[positions(specs[10])[0][1]][0])), 'into': gen.render(specs[10])})
    ck.bound('SF', f'all 7-bit type sets of every child for {len(forms)} construction forms')
    ck.bound('injection', f'{inj} texts: every argument position of {trees} trees x every clash of the table (wrong literal, operator result, function result, compound/primitive confusion), same-reference clashes, non-boolean roots')
    ck.coverage['evaluations'] = inj
    ck.coverage['distinct_nontrivial'] = trees
    ck.coverage['rule'] = 'one evaluation = one text with exactly one injected definite clash, built through the callbacks and parsed by the real parser; non-trivial = distinct host tree'
    ck.outside('clashes that follow only from unification across = (accepted by design); positions that hold the only use of a quantified variable')
    return ck.finish()


def replay(data) -> int:
    print('recorded:', data.get('what'))
    if data.get('kind') == 'inject':
        init_parsers()
        print('re-run  :', attempt(rw.tuplify(data['spec']), data.get('pred', False)))
    return 1
