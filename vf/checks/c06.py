"""C06 Printing a parsed AST and parsing it again gives the same AST.

(a) FP: the float arithmetic of the REAL HplPattern.__str__ and PropertyTransformer.time_amount is translated from their current
    source into z3 Float64 terms; z3 decides whether some finite time bound >= 0 prints to a text that parses to a different float
    (all 2^63 non-negative doubles: complete for this obligation).
(b) print -> parse -> print over every parsed AST of the enumerated families (expressions, predicates, events, properties with every
    scope/pattern/width/decoration, specifications), with equality, hash equality, text fixed point and injectivity of the printer.
"""
from __future__ import annotations

import itertools
import time
from typing import Any, Dict, List

from vf import families, fp, gen, par, props, rw, sem
from vf.common import Check, short

PARSERS = {}


def parsers():
    if not PARSERS:
        from hpl import parser as P
        PARSERS.update(expr=P.expression_parser(), pred=P.predicate_parser(), prop=P.property_parser(), spec=P.specification_parser(), cond=P.condition_parser())
    return PARSERS


def roundtrip(kind: str, ast, src: str):
    """None or (signature-kind, description)"""
    P = parsers()[kind]
    try:
        s1 = str(ast)
    except Exception as e:
        return ('print-raises', f'str() of the AST parsed from «{src}» raised {type(e).__name__}: {short(e, 100)}')
    try:
        a2 = P.parse(s1)
    except Exception as e:
        return ('print-unparseable', f'«{src}» prints as «{s1}», which does not parse: {type(e).__name__}: {short(e, 100).splitlines()[0]}')
    if a2 != ast:
        if nan_tolerant_equal(a2, ast):
            # the two trees are identical except that a NAN literal is never == to any NAN literal (not even itself)
            return ('nan-literal-unequal', f'«{src}» re-parses to the same tree, but ASTs containing the NAN constant compare unequal (NaN != NaN in HplLiteral.value)')
        return ('reparse-differs', f'«{src}» prints as «{s1}», which parses to a different AST «{a2}»')
    try:
        if hash(a2) != hash(ast):
            return ('hash-differs', f'«{src}»: equal ASTs with different hashes')
    except TypeError as e:
        return ('unhashable', f'«{src}»: {e}')
    s2 = str(a2)
    if s2 != s1:
        return ('print-not-fixed-point', f'«{src}» prints as «{s1}» and then as «{s2}»')
    return None


def nan_tolerant_equal(a, b) -> bool:
    """field-wise structural equality (metadata ignored) in which two NaN floats are equal"""
    import attrs
    from hpl.ast.base import HplAstObject
    if isinstance(a, HplAstObject):
        if type(a) is not type(b):
            return False
        for f in attrs.fields(type(a)):
            if f.eq is False:
                continue
            if not nan_tolerant_equal(getattr(a, f.name), getattr(b, f.name)):
                return False
        return True
    if isinstance(a, tuple):
        return isinstance(b, tuple) and len(a) == len(b) and all(nan_tolerant_equal(x, y) for x, y in zip(a, b))
    if isinstance(a, float) and isinstance(b, float) and a != a and b != b:
        return True
    return a == b


def case(item):
    kind, payload = item
    P = parsers()
    try:
        if kind == 'exprtext':
            src = payload
            kind = 'expr'
        elif kind in ('expr', 'pred'):
            spec = payload
            if not gen.parseable(spec):
                return None, None
            src = gen.render(spec)
            if kind == 'pred':
                src = '{ ' + src + ' }'
        else:
            src = payload
        ast = P[kind].parse(src)
    except Exception:
        return None, None  # not an accepted text: outside the quantifier
    r = roundtrip(kind, ast, src)
    return r, (str(ast), ast)


def worker(chunk):
    out = []
    for item in chunk:
        try:
            r, pr = case(item)
            # structural key that ignores metadata (equality and printing ignore it too)
            import re
            out.append((item, r, None if pr is None else (pr[0], re.sub(r'metadata=\{[^{}]*\}', '', repr(pr[1])))))
        except Exception as e:
            out.append((item, ('harness', f'{type(e).__name__}: {short(e, 200)}'), None))
    return out


def property_texts(tier: str) -> List[str]:
    from vf.harness import c11_sx
    out = []
    W = (1, 2, 3)
    times = [None, 0.0, 0.001, 0.25, 0.5, 1.0, 1.5, 3.0, 1e-5, 123456789.25, 2.5e20, 0.1, 0.3, 0.999]
    for si, pi in itertools.product(range(4), range(5)):
        for wa, wq, wt, wb in itertools.product(W, (1, 2), W, W):
            for deco in range(3):
                mt = times[(si * 7 + pi * 3 + wa + wq + wt + wb + deco) % len(times)]
                spec = c11_sx.mk(si, pi, wa, wq, wt, wb, deco, mt, None)
                if props.property_verdict(spec) is None:
                    out.append(props.render_property(spec))
    for mt in times[1:]:
        for unit in ('s', 'ms'):
            out.append(f'globally: no a within {mt!r} {unit}')
            out.append(f'after a as A until b {{x > @A.x}}: c causes (d or e {{ y in [0 to 10]! }}) within {mt!r}{unit}')
    # wide disjunctions (4 and 5 alternatives) in every event position
    wide4, wide5 = '(w0 or w1 {x > 1} or w2 as W or w3)', '(v0 or v1 or v2 {p} or v3 or v4 {y < 2})'
    for w in (wide4, wide5):
        out += [f'globally: no {w}', f'globally: some {w} within 2 s', f'globally: {w} causes b', f'globally: a causes {w}', f'globally: b requires {w}', f'globally: {w} forbids {wide4}',
                f'after {w}: no b', f'until {w}: some b', f'after a until {w}: {wide5} requires {w}']
    return families.uniq(out)


def main() -> int:
    ck = Check('C06', 'other', 'FP: HplPattern.__str__ and PropertyTransformer.time_amount translated from their current source into z3 Float64 terms; z3 decides the print/parse '
               'round trip of the time bound for ALL finite doubles >= 0. Plus print -> parse -> print (equality, hash, fixed point, injectivity) over every accepted text of the enumerated families.')
    ck.functions('hpl.ast.properties.HplPattern.__str__', 'hpl.parser.PropertyTransformer.time_amount', 'hpl.ast.expressions.*.__str__', 'hpl.ast.predicates.*.__str__',
                 'hpl.ast.events.*.__str__', 'hpl.ast.properties.HplScope/HplProperty.__str__', 'hpl.ast.specs.HplSpecification.__str__', 'hpl.parser.HplParser.parse')
    from hpl.ast.properties import HplPattern
    from hpl.parser import PropertyTransformer, property_parser
    # ---- (a) floats
    try:
        v, w, dt, desc = fp.roundtrip_query(HplPattern.__str__, PropertyTransformer.time_amount, timeout_ms=900000 if ck.tier == 'quick' else 3600000)
    except fp.Unsupported as e:
        v, w, dt, desc = 'unknown', None, 0.0, [f'source of __str__/time_amount left the translatable fragment: {e}']
    ck.query(v, dt)
    ck.engine('FP', encoding=desc, verdict=v, solver_s=round(dt, 1), domain='all finite IEEE-754 doubles m >= 0 (max_time)')
    if v == 'unsat':
        ck.obligation(True)
    elif v == 'sat':
        ck.obligation(False)
        text = f'globally: no a within {w!r} s'
        p1 = property_parser().parse(text)
        s1 = str(p1)
        try:
            p2 = property_parser().parse(s1)
            differs = p2.pattern.max_time != p1.pattern.max_time
            what = f'«{text}» prints as «{s1}», which parses to max_time {p2.pattern.max_time!r} instead of {p1.pattern.max_time!r}'
        except Exception as e:
            differs = True
            what = f'«{text}» prints as «{s1}», which does not parse: {type(e).__name__}'
        if differs:
            ck.counterexample('time-bound-roundtrip', what, {'kind': 'time', 'text': text, 'max_time': repr(w)})
        else:
            ck.undecided(f'FP witness {w!r} does not replay on the real printer/parser')
    else:
        ck.obligation(None)
        ck.undecided(f'FP round-trip query: {v} ({desc})')
    # the documented everyday inputs: N ms for integer N < 1000 (complete, concrete: 1000 values through the real code)
    bad_ms = 0
    pp = property_parser()
    for n in range(0, 1000):
        p1 = pp.parse(f'globally: no a within {n} ms')
        if pp.parse(str(p1)) != p1:
            bad_ms += 1
            ck.counterexample(f'time-bound-roundtrip:{n}ms', f'«globally: no a within {n} ms» does not survive print/parse', {'kind': 'time', 'text': f'globally: no a within {n} ms'})
    ck.obligation(bad_ms == 0)
    # ---- (b) print/parse
    sfam = families.simplify_families(ck.tier)
    bfam = families.boolean_families(ck.tier, alias_heavy=True)
    step = 10 if ck.tier == 'quick' else 1
    especs = families.slot_family() + families.call_shapes()
    for fam in (sfam, bfam):
        for k, v2 in fam.items():
            especs += v2[::step] if len(v2) > 300 else v2
    especs += families.random_specs(ck.seed + 6, 1500 if ck.tier == 'quick' else 60000, 5)
    especs += [('lit', 1e400), ('lit', 1e-320), ('lit', 12345678901234567890), ('const', 'PI'), ('const', 'INF'), ('const', 'NAN'), ('const', 'E'),
               ('bin', '<', ('const', 'NAN'), ('f', 'x')), ('str', 'a b'), ('str', ''), ('str', 'q\\"q'), ('str', 'back\\\\slash'), ('bin', '=', ('f', 's'), ('str', 'not and or')),
               ('bin', '<', ('f', 'notify'), ('f', 'android')), ('bin', '<', ('fa', ('var', 'inner'), 'format'), ('f', 'Ex'))]
    # set members / range bounds / quantifier domains that are themselves compound (boolean members need their own parentheses)
    P_, Q_, X_, Y_ = ('f', 'p'), ('f', 'q'), ('f', 'x'), ('f', 'y')
    members = [('bin', 'and', P_, Q_), ('bin', 'or', P_, ('not', Q_)), ('bin', 'implies', P_, Q_), ('bin', 'iff', P_, Q_), ('not', P_), ('bin', '<', X_, Y_), ('bin', '=', X_, ('lit', 1)),
               ('bin', 'in', X_, ('set', ('lit', 1))), ('q', 'forall', 'i', ('f', 'xs'), ('bin', '>', ('var', 'i'), ('lit', 0))), ('bin', '+', X_, ('lit', 1)), ('neg', X_),
               ('bin', '**', X_, ('bin', '-', Y_, ('lit', 2))), ('call', 'abs', ('bin', '-', X_, Y_))]
    for m_ in members:
        especs += [('bin', 'in', ('f', 'flag'), ('set', m_, ('lit', False))), ('bin', 'in', ('f', 'flag'), ('set', ('lit', True), m_, ('f', 'r'))),
                   ('q', 'exists', 'v', ('set', m_, ('f', 'r')), ('bin', '=', ('var', 'v'), ('f', 'r'))), ('bin', '=', ('call', 'len', ('set', m_)), ('lit', 1))]
    for m_ in members[-4:]:
        especs += [('bin', 'in', ('f', 'z'), ('range', m_, ('bin', '*', Y_, ('lit', 2)), False, True)), ('bin', 'in', ('f', 'z'), ('range', ('lit', 0), m_, True, False)),
                   ('q', 'forall', 'v', ('range', m_, m_, False, False), ('bin', '<', ('var', 'v'), ('idx', ('f', 'xs'), m_)))]
    especs = families.uniq(especs)
    ptexts = property_texts(ck.tier)
    stexts = ['\n'.join(ptexts[i:i + n]) for i, n in ((0, 1), (3, 2), (10, 3), (40, 5))] + [f'# id: p{i}\n# title: "t"\n{t}' for i, t in enumerate(ptexts[::97])]
    raw = ['x < 1e999', 'x < inf', 'x < INF', 'y = 2e308', '1E-7 + 007 < 1.50', 'x = 1.0', 'x = 1', 'x = 01', '.5 < 5.', 'x < 1e400 and y > -1E400', 'x = 0.10', 'z = 1e-5', 'z = 0.00001',
           'z < 12345678901234567890', 'a = "x" and b = "x "', 'a = "\\"" or b = "\\\\"', 'xs[0][1].f.g[2] = 1', '@A.b.c[1].d > 0', 'f( g ( h(x) ) ) > 0', 'x in {1, 1.0, 1e0}',
           'xs[01] = 1', 'xs[00] < xs[0]', 'grid[007][2] = xs[1]', 'xs[1E0] = 1', 'x in [00 to 010]', 'int((a < b)) = 1', 'str((not ok)) = s', 'bool((a and b))', 'abs((x - y)) > 0',
           '- - x > - 1', 'not not p', '(((x))) = (y)', 'x ** y ** z > 0', 'a - b - c = a - (b - c)']
    items = [('exprtext', t) for t in raw] + [('expr', s) for s in especs] + [('pred', s) for s in especs[::2]] + [('prop', t) for t in ptexts] + [('spec', t) for t in stexts]
    t0 = time.time()
    results = [x for c in par.pmap_chunks(worker, items, 60) for x in c]
    printed: Dict[Any, str] = {}
    accepted = 0
    for (kind, payload), r, pr in results:
        if pr is None and r is None:
            continue
        if r is not None and r[0] == 'harness':
            ck.undecided(r[1])
            continue
        accepted += 1
        src = payload if isinstance(payload, str) else gen.render(payload)
        if kind == 'exprtext':
            kind = 'expr'
        ck.obligation(r is None)
        if r is not None:
            sig = 'nan-literal-unequal' if r[0] == 'nan-literal-unequal' else f'{r[0]}@{kind}@{short(src, 150)}'
            ck.counterexample(sig, r[1], {'kind': 'roundtrip', 'parser': kind, 'text': src})
        if pr is not None:
            key = (kind, pr[0])
            if key in printed and printed[key] != pr[1]:
                ck.counterexample(f'printer-not-injective@{kind}@{short(pr[0], 150)}', f'two different {kind} ASTs print as «{pr[0]}»', {'kind': 'injective', 'parser': kind, 'text': pr[0]})
            printed[key] = pr[1]
    ck.engine('print-parse', accepted_texts=accepted, distinct_printed_forms=len(printed), wall_s=round(time.time() - t0, 1))
    ck.sample({'property_text': ptexts[len(ptexts) // 2]})
    ck.sample({'expression_text': gen.render(especs[len(especs) // 3])})
    ck.bound('FP', 'all finite doubles >= 0 as max_time (bit-precise); repr/float round trip of CPython assumed')
    ck.bound('print-parse', f'{accepted} accepted texts: expression families (every node kind and child slot, every function/argument shape, depth <= 5 random), the same as predicates, '
             f'{len(ptexts)} properties (4 scopes x 5 patterns x widths 1..3 (and 4-/5-way disjunctions in every event position) x decorations x 14 time bounds incl. 1e-05, 2.5e+20, ms and s units), {len(stexts)} specifications')
    ck.coverage['evaluations'] = accepted
    ck.coverage['distinct_nontrivial'] = len(printed)
    ck.coverage['rule'] = 'one evaluation = one accepted text through parse, print, parse, print; distinct = distinct printed form'
    ck.assume('repr() of a finite float parses back to the same float (CPython contract); NUMBER tokens accept every repr of a finite non-negative float (checked on the listed magnitudes)')
    ck.outside('string escapes beyond \\" and \\\\; expression depth beyond the families')
    return ck.finish()


def replay(data) -> int:
    print('recorded:', data.get('what'))
    if data.get('kind') in ('roundtrip', 'time'):
        kind = data.get('parser', 'prop')
        a = parsers()[kind].parse(data['text'])
        print('re-run  :', roundtrip(kind, a, data['text']))
    return 1
