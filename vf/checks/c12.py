"""C12 Splitting a pattern over event alternatives preserves trace semantics — bounded model checking in z3."""
from __future__ import annotations

import itertools
import time
from typing import Any, Dict, List

import z3

from vf import par, props, tr
from vf.common import Check, short

X = ('f', 'x')


def thr(op, c):
    return ('bin', op, X, ('lit', c))


def rel(alias):
    return ('bin', '>', X, ('fa', ('var', alias), 'x'))


def specs(tier: str):
    """property specs with a simple activator (the precondition of C12)"""
    W = (1, 2, 3)
    O = (1, 2)
    preds = [thr('>', 0), thr('<', 1), thr('=', 2)]
    for scope, pattern in itertools.product(props.SCOPES, props.PATTERNS):
        pos = props.SPLIT[pattern]
        has_t = pattern in ('response', 'prevention', 'requirement')
        has_a = scope in ('after', 'after_until')
        has_q = scope in ('until', 'after_until')
        for fam in ('none', 'threshold', 'alias', 'slashy'):
            if fam == 'slashy' and (pattern not in ('absence', 'existence', 'response') and tier == 'quick'):
                continue
            for mt in ((None, 1.0) if tier == 'quick' else (None, 1.0, 0.25, 0.0)):
                for wb, wt, wq in itertools.product(W if pos == 'behaviour' else O, (W if pos == 'trigger' else O) if has_t else (1,), O if has_q else (1,)):
                    p: Dict[str, Any] = {'scope': scope, 'pattern': pattern, 'activator': None, 'terminator': None, 'trigger': None,
                                         'max_time': mt, 'meta': None}
                    def ev(prefix, w, alias, pr, fam=fam):
                        props.SLASHY[0] = (fam == 'slashy')   # look-alike channel names: b0, /b0, ~b0 are three different channels
                        try:
                            return props.mk_event(prefix, w, [alias] * w if alias else None, pr)
                        finally:
                            props.SLASHY[0] = False
                    if fam == 'slashy' and max(wb, wt, wq) < 2:
                        continue
                    if fam in ('none', 'slashy'):
                        pa = pq = ptg = pb = None
                        al_a = al_t = al_b = None
                    elif fam == 'threshold':
                        pa = [preds[0]]
                        pq = [preds[i % 3] for i in range(wq)]
                        ptg = [preds[(i + 1) % 3] for i in range(wt)]
                        pb = [preds[(i + 2) % 3] if i != 1 else None for i in range(wb)]
                        al_a = al_t = al_b = None
                    else:
                        al_a = 'A' if has_a else None
                        pa = None
                        pq = [rel('A') if has_a and i == 0 else preds[0] for i in range(wq)]
                        if not has_t:
                            al_t = al_b = None
                            ptg = None
                            pb = [rel('A') if has_a and i % 2 == 0 else preds[1] for i in range(wb)]
                        elif pattern == 'requirement':
                            al_b, al_t = 'B', None
                            pb = [rel('A') if has_a and i == 0 else None for i in range(wb)]
                            ptg = [rel('B') if i % 2 == 0 else preds[2] for i in range(wt)]
                        else:
                            al_t, al_b = 'T', None
                            ptg = [rel('A') if has_a and i == 0 else None for i in range(wt)]
                            pb = [rel('T') if i % 2 == 0 else preds[2] for i in range(wb)]
                    if has_a:
                        p['activator'] = ev('a', 1, al_a, pa)
                    if has_q:
                        p['terminator'] = ev('q', wq, None, pq)
                    if has_t:
                        p['trigger'] = ev('t', wt, al_t, ptg)
                    p['behaviour'] = ev('b', wb, al_b, pb)
                    yield p
                    if fam in ('none', 'threshold') and max(wb, wt, wq) == 3:
                        # the same alternatives nested to the LEFT, ((x or y) or z): only the public constructors build this
                        q = dict(p)
                        for key in ('behaviour', 'trigger', 'terminator'):
                            if q.get(key) and q[key][0] == 'or' and len(q[key]) == 4:
                                q[key] = ('orL',) + q[key][1:]
                        yield q


HIST_PARTNER = {'absence': 'existence', 'existence': 'absence', 'response': 'prevention', 'prevention': 'response', 'requirement': 'requirement'}


def decide(P, Qs, k: int, reading: str, timeout_ms: int = 20000):
    """z3: is there a trace of length k on which P and the conjunction of Qs disagree?"""
    topics = tr.topics_of([P] + list(Qs))
    st = tr.SymTrace(k, topics)
    fp = tr.z3_holds(P, st, reading)
    fq = z3.And(*[tr.z3_holds(q, st, reading) for q in Qs])
    s = z3.Solver()
    s.set('timeout', timeout_ms)
    for c in st.cons + st.assumptions:
        s.add(c)
    s.add(fp != fq)
    t0 = time.time()
    r = s.check()
    dt = time.time() - t0
    if r == z3.unsat:
        return 'unsat', None, dt
    if r != z3.sat:
        return 'unknown', None, dt
    m = s.model()
    ct = tr.model_trace(m, st)
    hp = tr.py_holds(P, ct, reading)
    hq = all(tr.py_holds(q, ct, reading) for q in Qs)
    trace = [{'topic': x['topic'], 'time': str(x['time']), 'fields': {a: str(b) for a, b in x['fields'].items()}} for x in ct.m]
    if hp != hq:
        return 'sat', {'trace': trace, 'P': hp, 'Qs': hq}, dt
    return 'norepro', {'trace': trace, 'P': hp, 'Qs': hq}, dt


def case(item):
    from hpl.rewrite import canonical_form
    spec, k = item[0], item[1]
    mode = item[2] if len(item) > 2 else 'plain'
    if props.binding_verdict(spec) is not None:
        return ('skip', None, None, None)
    text = props.render_property(spec)
    if mode == 'plain':
        P = props.build_property(spec)
    else:
        # history: the property is derived with but() from a sibling that has ALREADY been through canonical_form
        other = dict(spec)
        other['pattern'] = HIST_PARTNER[spec['pattern']]
        if props.binding_verdict(other) is not None:
            return ('skip', None, None, None)
        P0 = props.build_property(other)
        try:
            canonical_form(P0)
        except Exception:
            return ('skip', None, None, None)
        P = P0.but(pattern=props.build_property(spec).pattern)
        text += '  [derived from its sibling after canonical_form]'
    try:
        first = canonical_form(P)
        if isinstance(first, list):
            first.clear()          # the returned list is the caller's: draining it must not change what a later call returns
        Qs = canonical_form(P)
    except Exception as e:
        return ('exc', type(e).__name__, text, None)
    if any(spec.get(k) and spec[k][0] == 'orL' for k in ('behaviour', 'trigger', 'terminator')):
        text += '  [alternatives nested to the left through the constructors]'
    out = []
    readings = ('A', 'B') if spec['scope'] == 'after_until' else ('A',)
    for rd in readings:
        v, info, dt = decide(P, Qs, k, rd)
        out.append((rd, v, info, dt, len(Qs)))
    return ('done', text, out, None)


def worker(chunk):
    res = []
    for item in chunk:
        try:
            res.append((item, case(item)))
        except Exception as e:
            res.append((item, ('harness', f'{type(e).__name__}: {short(e, 200)}', None, None)))
    return res


def witnesses(ck: Check, k: int):
    """vacuity guard: hand-made WRONG decompositions must be reported sat and replay in the Python evaluator"""
    from hpl.parser import property_parser
    pp = property_parser()
    wrong = [
        ('globally: some (b0 or b1)', ['globally: some b0', 'globally: some b1']),
        ('globally: t0 causes (b0 or b1)', ['globally: t0 causes b0', 'globally: t0 causes b1']),
        ('globally: b0 requires (t0 or t1) within 1 s', ['globally: b0 requires t0 within 1 s', 'globally: b0 requires t1 within 1 s']),
        ('after a0 until (q0 or q1): no b0', ['after a0 until q0: no b0', 'after a0 until q1: no b0']),
        ('after a0 as A: no b0 {x > @A.x}', ['after a0 as A: no b0 {x >= @A.x}']),
        ('globally: no b0 within 1 s', ['globally: no b0 within 2 s']),
        ('until q0: some b0', ['globally: some b0']),
    ]
    ok = 0
    for p, qs in wrong:
        v, info, dt = decide(pp.parse(p), [pp.parse(q) for q in qs], k, 'A')
        ck.query('sat' if v == 'sat' else 'unknown', dt)
        if v == 'sat':
            ok += 1
            ck.sample({'witness_wrong_split': p, 'as': qs, 'distinguishing_trace': info['trace']}, cap=40)
        else:
            ck.undecided(f'reachability witness failed: wrong decomposition of «{p}» was not distinguished ({v})')
    ck.engine('TR', wrong_decompositions_distinguished=ok, wrong_decompositions=len(wrong))


def main() -> int:
    ck = Check('C12', 'model_checking', 'bounded model checking: for each property shape, z3 searches ALL timed traces up to the length bound (topics, real timestamps, '
               'integer/real payloads symbolic) for one that distinguishes the property from the conjunction of its real canonical_form outputs, under two readings of scope re-activation')
    ck.functions('hpl.rewrite.canonical_form', 'hpl.rewrite._canonical_form_safety', 'hpl.rewrite._canonical_form_liveness', 'hpl.ast.events.HplEvent.simple_events')
    k = 5 if ck.tier == 'quick' else 6
    items = [(s, k) for s in specs(ck.tier)]
    items += [(s, k, 'hist') for i, s in enumerate(specs('quick')) if s['pattern'] != 'requirement' and s['max_time'] is None
              and (ck.tier == 'thorough' or i % 3 == 0)]
    if ck.tier == 'thorough':
        items += [(s, 7) for i, s in enumerate(specs('quick')) if i % 7 == 0]
    witnesses(ck, k)
    results = [x for c in par.pmap_chunks(worker, items, 20) for x in c]
    shapes = 0
    split_shapes = 0
    for item, (status, a, b, _) in results:
        spec, kk = item[0], item[1]
        if status == 'skip':
            continue
        if status == 'harness':
            ck.undecided(f'harness exception: {a}')
            continue
        if status == 'exc':
            # canonical_form failing on a valid property is C11/C14's finding; for C12 there is nothing to compare
            ck.engine('TR', canonical_form_raised=1)
            continue
        shapes += 1
        text = a
        for rd, v, info, dt, nq in b:
            ck.obligation(v == 'unsat')
            ck.query(v if v in ('unsat', 'sat') else 'unknown', dt)
            if nq > 1:
                split_shapes += 1
            if v == 'sat':
                ck.counterexample(f'trace-semantics@{rd}@{text}', f'«{text}» and its canonical form differ (reading {rd}) on trace {info["trace"]}: property {info["P"]}, conjunction {info["Qs"]}',
                                  {'kind': 'trace', 'text': text, 'reading': rd, 'k': kk, 'trace': info['trace']})
            elif v != 'unsat':
                ck.undecided(f'«{text}» reading {rd}: {v}')
        if shapes % 97 == 0:
            ck.sample({'property': text, 'canonical_parts': b[0][4], 'verdicts': [x[1] for x in b]})
    ck.bound('trace length', f'<= {k} messages (all shorter traces are prefixes with padding topics); topics: those of the property + 1 other; timestamps: non-decreasing reals; payload x: any value')
    ck.bound('property shapes', f'{shapes}: 4 scopes x 5 patterns x widths (split position 1..3, others 1..2) x predicate family (none / thresholds / alias relations) x time bound')
    ck.coverage['evaluations'] = ck.coverage['queries']['unsat'] + ck.coverage['queries']['sat'] + ck.coverage['queries'].get('unknown', 0)
    ck.coverage['distinct_nontrivial'] = split_shapes
    ck.coverage['rule'] = 'one evaluation = one z3 query over all traces of the bound; non-trivial = property shape whose canonical form has more than one part'
    ck.assume('reference trace semantics of DESIGN.md 3.3 (docs/lang.md is informal); both readings of after-until re-activation are checked')
    ck.assume('activator is a single event (precondition of the statement); alias-bearing alternatives of one event share the alias name')
    ck.outside('traces longer than the bound; payload fields other than x; nested message payloads')
    return ck.finish()


def replay(data) -> int:
    from fractions import Fraction
    from hpl.parser import property_parser
    from hpl.rewrite import canonical_form
    text, derived = data['text'], False
    text = text.split('  [alternatives nested')[0]
    if '  [derived' in text:
        text, derived = text.split('  [derived')[0], True
    P = property_parser().parse(text)
    if derived:
        import re
        swap = {'no': 'some', 'some': 'no', 'causes': 'forbids', 'forbids': 'causes'}
        sib = re.sub(r'(: )(no|some)( )|( )(causes|forbids)( )', lambda m: (m.group(1) + swap[m.group(2)] + m.group(3)) if m.group(2) else (m.group(4) + swap[m.group(5)] + m.group(6)), text, count=1)
        P0 = property_parser().parse(sib)
        canonical_form(P0)
        P = P0.but(pattern=P.pattern)
        print('history       : canonical_form(', P0, ') first, then P = that.but(pattern=...)')
    Qs = canonical_form(P)
    msgs = []
    for m in data['trace']:
        fields = {}
        for a, b in m['fields'].items():
            try:
                fields[a] = Fraction(b)
            except ValueError:
                fields[a] = b
        msgs.append({'topic': m['topic'], 'time': Fraction(m['time']), 'fields': fields})
    ct = tr.ConcreteTrace(msgs)
    print('property      :', P, '->', tr.py_holds(P, ct, data['reading']))
    for q in Qs:
        print('canonical part:', q, '->', tr.py_holds(q, ct, data['reading']))
    return 1
