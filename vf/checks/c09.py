"""C09 split_and returns an equivalent list of indivisible conjuncts."""
from __future__ import annotations

from typing import Any, Dict, List

import z3

from vf import eq, families, gen, rw, sem
from vf.common import Check, short
from vf.sem import Val, Z3Tr

K = 2


def forbidden_shape(e) -> str:
    """syntactic test written from the statement (attrs fields only)"""
    k = sem.kind(e)
    if k == 'HplBinaryOperator' and e.operator.token == 'and':
        return 'conjunction'
    if k == 'HplUnaryOperator' and e.operator.token == 'not':
        o = e.operand
        ko = sem.kind(o)
        if ko == 'HplBinaryOperator' and o.operator.token == 'or':
            return 'negated disjunction'
        if ko == 'HplBinaryOperator' and o.operator.token == 'implies':
            return 'negated implication'
        if ko == 'HplUnaryOperator' and o.operator.token == 'not':
            return 'double negation'
        if ko == 'HplQuantifier' and o.quantifier.value == 'exists':
            return 'negated existential quantifier'
    if k == 'HplQuantifier' and e.quantifier.value == 'forall':
        c = e.condition
        if sem.kind(c) == 'HplBinaryOperator' and c.operator.token == 'and':
            return 'universal quantifier over a conjunction'
    return ''


def has_false_literal(e) -> bool:
    return any(sem.kind(n) == 'HplLiteral' and n.value is False for n in sem.walk_nodes(e))


def never_true(e) -> Any:
    tr = Z3Tr(K=K)
    v, d = tr.tr(e)
    s = z3.Solver()
    s.set('timeout', 4000)
    for a in tr.assumptions:
        s.add(a)
    s.add(d, Val.is_B(v), Val.b(v))
    r = s.check()
    return True if r == z3.unsat else False if r == z3.sat else None


def case(spec) -> tuple:
    from hpl.ast.predicates import HplPredicateExpression
    from hpl.rewrite import split_and
    from hpl.types import DataType
    composed = False
    if spec[0] == 'simplified':  # split_and applied to the OUTPUT of simplify (literals built by the library, not by the parser)
        composed = True
        spec = spec[1]
    ast, note = rw.build_or_none(spec)
    if ast is None:
        return ('illtyped', note, None, None)
    if not ast.data_type & DataType.BOOL:
        return ('illtyped', 'not boolean', None, None)
    if sem.kind(ast) == 'HplLiteral':
        cond = ast
    else:
        try:
            cond = HplPredicateExpression(ast).condition  # root cast to BOOL, as the parser does
        except TypeError:
            if not composed:
                return ('illtyped', 'predicate', None, None)
            cond = ast  # the expression parser does not unify reference types: such trees reach simplify/split_and through hpl.parser.expression_parser
    if composed:
        from hpl.rewrite import simplify
        try:
            cond = simplify(cond)
        except Exception:
            return ('illtyped', 'simplify raised', None, None)
        if sem.kind(cond) == 'HplLiteral':
            return ('illtyped', 'literal', None, None)
    text = ('simplify: ' if composed else '') + str(cond)
    rep = {'kind': 'split_and', 'spec': ('simplified', spec) if composed else spec, 'text': text}
    try:
        parts = split_and(cond)
    except ValueError as e:
        if not has_false_literal(cond):
            return ('finding', f'valueerror-without-false@{text}', f'split_and({text}) raised ValueError but no literal False occurs in the input', rep)
        nt = never_true(cond)
        if nt is None:
            return ('unknown', None, f'cannot decide satisfiability of {text}', None)
        if not nt:
            return ('finding', f'valueerror-on-satisfiable@{text}', f'split_and({text}) reports unsatisfiable but the input is satisfiable', rep)
        return ('allowed-exc', None, None, None)
    except Exception as e:
        return ('finding', f'{rw.exc_signature(e)}@{text}', f'split_and({text}) raised {type(e).__name__}: {short(e, 120)}', rep)
    rep['output'] = [str(p) for p in parts]
    if not composed and len(text) % 4 == 0:
        h = rw.history_dependence(split_and, rw.rebuild(cond, fresh_metadata=True), holds=lambda d, o: eq.equivalent(d, list(o), K=K, conj=True).verdict != 'sat')
        if h:
            return ('finding', f'history@{text}', f'split_and depends on earlier calls: {h}', rep)
    if not isinstance(parts, list):
        return ('finding', f'not-a-list@{text}', f'split_and({text}) returned {type(parts).__name__}', rep)
    for p in parts:
        if p.data_type != DataType.BOOL:
            return ('finding', f'non-boolean-part@{text}', f'split_and({text}) returned {p} of type {p.data_type!r}', rep)
        shape = forbidden_shape(p)
        if shape:
            return ('finding', f'divisible-part@{text}', f'split_and({text}) returned a {shape}: {p}', rep)
        bad = rw.check_valid(p)
        if bad:
            return ('finding', f'invalid-output@{text}', f'split_and({text}) returned invalid AST {p}: {bad}', rep)
    if len(parts) == 1 and parts[0] == cond:
        return ('identity', None, None, 0.0)
    r = eq.equivalent(cond, parts, K=K, conj=True)
    if r.verdict == 'sat':
        rep.update({'valuation': r.valuation, 'value_in': repr(r.vin), 'value_out': repr(r.vout)})
        return ('finding', f'not-equivalent@{text}', f'split_and({text}) = {rep["output"]}; at {r.valuation} input is {r.vin[1]!r}, conjunction of outputs is {r.vout}', rep)
    if r.verdict != 'unsat':
        return ('unknown', None, f'{text} => {rep["output"]}: {r.verdict} {r.note}', None)
    return ('ok' if r.reach else 'vacuous', None, None, r.secs)


worker = rw.make_worker(case)


def main() -> int:
    ck = Check('C09', 'other', 'real split_and executed on enumerated boolean/quantifier trees; z3 decides conjunction(outputs) == input for all '
               'valuations (arrays and abstract range lists up to K elements incl. the empty domain); output shapes checked syntactically')
    ck.functions('hpl.rewrite.split_and', 'hpl.rewrite._split_and_expr', 'hpl.rewrite._and_presplit_transform', 'hpl.rewrite._split_and_not',
                 'hpl.rewrite._split_and_quantifier', 'hpl.rewrite.empty_test')
    fams = families.boolean_families(ck.tier)
    n_rand = 2000 if ck.tier == 'quick' else 30000
    rnd = [s for s in families.random_specs(ck.seed + 9, n_rand * 2, 4 if ck.tier == 'quick' else 5)]
    fams['random(seed)'] = families.uniq(rnd)[:n_rand]
    comp = []
    sfam = families.simplify_families('quick')
    for k in ('strings', 'calls', 'quantifiers', 'inclusion', 'logic-nests'):
        comp += sfam[k][:: (2 if ck.tier == 'quick' else 1)]
    S_, X_ = ('f', 's'), ('f', 'x')
    for a in (('call', 'str', ('lit', 1)), ('call', 'str', ('lit', True)), ('call', 'str', ('str', 'b')), ('call', 'str', ('bin', '+', ('lit', 1), ('lit', 1)))):
        for b in (('lit', 1), ('f', 'b'), ('str', '1'), ('lit', True), ('lit', 2)):
            for v in (S_, X_):
                comp += [('bin', 'and', ('bin', '=', v, a), ('bin', '=', v, b)), ('bin', 'and', ('bin', '!=', v, a), ('bin', 'and', ('f', 'p'), ('bin', '!=', v, b)))]
    fams['after-simplify'] = [('simplified', s_) for s_ in families.uniq(comp)]
    # string literals as the API builds them (HplLiteral.string: token without quotes, so "b" prints like the field b)
    api = []
    for name in ('b', 'p', 's'):
        A, Fb = ('apistr', name), ('f', name)
        for v in (S_, ('f', 'b'), ('fa', ('var', 'A'), 's')):
            if v == Fb:
                continue
            api += [('bin', 'and', ('bin', '=', v, A), ('bin', '=', v, Fb)), ('bin', 'and', ('bin', '=', v, Fb), ('bin', '=', v, A)),
                    ('bin', 'and', ('bin', '!=', v, A), ('bin', 'and', ('f', 'p'), ('bin', '!=', v, Fb))),
                    ('not', ('bin', 'or', ('bin', '=', v, A), ('bin', '=', v, Fb))),
                    ('bin', 'and', ('bin', 'in', v, ('set', A)), ('bin', 'in', v, ('set', Fb))),
                    ('bin', 'and', ('bin', '=', v, A), ('bin', '=', v, ('str', name)))]
    fams['api-built-string-literals'] = families.uniq(api)
    total, nontrivial = rw.run_cases(ck, fams, worker, 'EQ', K)
    ck.bound('trees', f'{total}: exhaustive propositional trees of depth <= 3 over 6-8 atoms, quantifiers (forall/exists) over array/set/literal range/'
             f'symbolic range domains with bodies of depth <= 2, wrapped and nested; + seeded random trees')
    ck.bound('valuations', f'all; arrays and abstract range lists of length 0..{K}')
    ck.coverage['evaluations'] = total
    ck.coverage['distinct_nontrivial'] = nontrivial
    ck.coverage['rule'] = 'one tree through real split_and + one z3 query; non-trivial = distinct tree, satisfiable definedness, output differs structurally from the input, query unsat'
    ck.assume('ValueError is accepted iff a literal False occurs in the input and z3 proves the input never true')
    ck.outside('arrays longer than K; trees deeper than the families')
    return ck.finish()


def replay(data) -> int:
    from hpl.ast.predicates import HplPredicateExpression
    from hpl.rewrite import split_and
    ast = gen.build(rw.tuplify(data['spec']))
    print('input :', ast)
    try:
        print('output:', [str(p) for p in split_and(ast)])
    except Exception as e:
        print('raised:', type(e).__name__, e)
    print('recorded:', data.get('what'))
    return 1
