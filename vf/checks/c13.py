"""C13 Predicate combinators and reference substitutions are semantically exact."""
from __future__ import annotations

import z3

from vf import eq, families, gen, ieee, rw, sem
from vf.common import Check, short
from vf.sem import Val

K = 2
THIS = z3.IntVal(0)


def _eq(tag, text, e_in, e_outs, rep, conj=False, **kw):
    r = eq.equivalent(e_in, e_outs, K=K, conj=conj, **kw)
    if r.verdict == 'sat':
        rep = dict(rep)
        rep.update({'valuation': r.valuation, 'value_in': repr(r.vin), 'value_out': repr(r.vout), 'output': [str(e) for e in e_outs]})
        return ('finding', f'{tag}@{text}', f'{tag}: {text} vs {[str(e) for e in e_outs]}; at {r.valuation} expected {r.vin[1]!r}, got {r.vout}', rep)
    if r.verdict != 'unsat':
        return ('unknown', None, f'{tag} {text}: {r.verdict} {r.note}', None)
    return ('ok' if r.reach else 'vacuous', None, None, r.secs)


def _ieee(tag, text, ins, out, combine_z3, combine_py, rep):
    """NaN / infinity reading of the comparison skeleton (vf/ieee.py); None when nothing to report"""
    try:
        v, info, dt = ieee.differ(combine_z3, ins, out)
    except Exception as e:  # an error of the harness, never a verdict about the code
        return ('unknown', None, f'{tag} {text}: IEEE skeleton harness error {type(e).__name__}: {short(e, 120)}', None)
    if v in ('unsat', 'skip'):
        return None
    if v == 'unknown':
        return ('unknown', None, f'{tag} {text}: IEEE skeleton query unknown', None)
    want = combine_py([ieee.py_skeleton(e, info['nums'], info['bools']) for e in ins])
    got = ieee.py_skeleton(out, info['nums'], info['bools'])
    if want == got:
        return ('unknown', None, f'{tag} {text}: IEEE skeleton model did not reproduce in Python floats: {info["shown"]}', None)
    rep = dict(rep)
    rep.update({'ieee': info['shown'], 'output': [str(out)], 'expected': want, 'got': got})
    return ('finding', f'{tag}-ieee@{text}', f'{tag} (IEEE reading): {text} vs {out}; with {info["shown"]} expected {want}, got {got}', rep)


def case(item) -> tuple:
    from hpl.ast import HplSimpleEvent, HplVacuousTruth, HplContradiction
    from hpl.ast.expressions import Not, And
    from hpl.ast.predicates import HplPredicateExpression
    from hpl.rewrite import replace_this_with_var, replace_var_with_this
    from hpl.types import DataType
    spec, op = item[0], item[1]
    ast, note = rw.build_or_none(spec)
    if ast is None:
        return ('illtyped', note, None, None)
    text = str(ast)
    rep = {'kind': op, 'spec': spec, 'text': text, 'extra': list(item[2:])}
    boolean = bool(ast.data_type & DataType.BOOL) and sem.kind(ast) != 'HplLiteral'
    try:
        if op in ('negate', 'join', 'event'):
            if not boolean:
                return ('illtyped', 'not boolean', None, None)
            try:
                pred = HplPredicateExpression(ast)
            except TypeError:
                return ('illtyped', 'predicate', None, None)
            f = pred.condition
            if op == 'negate':
                n = pred.negate()
                if not n.is_predicate:
                    return ('finding', f'negate-kind@{text}', f'negate() of {{{text}}} returned {n!r}', rep)
                bad = None if n.is_vacuous else rw.check_valid(n)
                if bad:
                    return ('finding', f'negate-invalid@{text}', f'negate() of {{{text}}} is invalid: {bad}', rep)
                if len(text) % 4 == 0:
                    h = rw.history_dependence(lambda x: HplPredicateExpression(x).negate(), gen.build(spec),
                                              holds=lambda d, o: o.is_vacuous or eq.equivalent(Not(rw.rebuild(d, fresh_metadata=True)), [o.condition], K=K).verdict != 'sat')
                    if h:
                        return ('finding', f'negate-history@{text}', f'negate depends on earlier calls: {h}', rep)
                r = _eq('negate-is-not-negation', text, Not(gen.build(spec)), [n.condition], rep)
                if r[0] in ('ok', 'vacuous') and not n.is_vacuous:
                    r2 = _ieee('negate-is-not-negation', text, [f], n.condition, lambda zs: z3.Not(zs[0]), lambda vs: not vs[0], rep)
                    if r2 is not None:
                        return r2
                return r
            if op == 'join':
                spec2 = item[2]
                ast2, _ = rw.build_or_none(spec2)
                if ast2 is None or not (ast2.data_type & DataType.BOOL) or sem.kind(ast2) == 'HplLiteral':
                    return ('illtyped', 'second', None, None)
                try:
                    pred2 = HplPredicateExpression(ast2)
                    ref = And(gen.build(spec), gen.build(spec2))
                    HplPredicateExpression(ref)
                except TypeError:
                    return ('illtyped', 'join ill-typed', None, None)
                j = pred.join(pred2)
                r = _eq('join-is-not-conjunction', f'{text} JOIN {ast2}', ref, [j.condition], rep)
                if r[0] == 'finding':
                    return r
                if not j.is_vacuous:
                    r2 = _ieee('join-is-not-conjunction', f'{text} JOIN {ast2}', [f, pred2.condition], j.condition, lambda zs: z3.And(*zs), lambda vs: all(vs), rep)
                    if r2 is not None:
                        return r2
                # vacuous truth = identity, contradiction = annihilator, both orders
                T, F = HplVacuousTruth(), HplContradiction()
                checks = [(pred.join(T), pred), (T.join(pred), pred), (pred.join(F), F), (F.join(pred), F)]
                for got, want in checks:
                    if got != want:
                        return ('finding', f'join-vacuous@{text}', f'join with a vacuous predicate: got {got}, expected {want}', rep)
                return r
            if op == 'event':
                alias = item[2]
                ev = HplSimpleEvent.publish('t', alias=alias, predicate=pred)
                stored = ev.predicate
                if stored.is_vacuous:
                    return ('illtyped', 'vacuous', None, None)
                # the same event reached by the other public routes: copies with but() and the plain constructor
                routes = {'but(predicate=)': lambda: HplSimpleEvent.publish('t', alias=alias).but(predicate=HplPredicateExpression(gen.build(spec))),
                          'but(alias=)': lambda: HplSimpleEvent.publish('t', predicate=HplPredicateExpression(gen.build(spec))).but(alias=alias),
                          'constructor': lambda: HplSimpleEvent(name='t', alias=alias, predicate=HplPredicateExpression(gen.build(spec)), event_type=ev.event_type)}
                for rname, mk in routes.items():
                    try:
                        other = mk()
                    except TypeError:
                        continue  # route not offered with these keywords
                    if other.predicate.is_vacuous:
                        continue
                    if alias in sem.free_vars(other.predicate.condition) or alias in other.external_references():
                        return ('finding', f'event-alias-not-normalised:{rname}@{alias}@{text}', f'event t as {alias} {{{text}}} built through {rname} stores {other.predicate} (still mentions @{alias}; external_references() = {sorted(other.external_references())}); publish() stores {stored}', rep)
                if alias in sem.free_vars(stored.condition):
                    return ('finding', f'event-alias-not-normalised@{alias}@{text}', f'event t as {alias} {{{text}}} stores {stored} which still mentions @{alias}', rep)
                if alias in ev.external_references():
                    return ('finding', f'event-lists-own-alias@{alias}@{text}', f'event t as {alias} {{{text}}} lists its own alias among external references', rep)
                want_refs = sem.free_vars(f) - {alias}
                if ev.external_references() != want_refs:
                    return ('finding', f'event-external-refs@{alias}@{text}', f'event t as {alias} {{{text}}}: external_references() = {sorted(ev.external_references())}, expected {sorted(want_refs)}', rep)
                return _eq('event-self-alias-meaning', f'{alias}@{text}', f, [stored.condition], rep, aliases_in={alias: Val.M(THIS)})
        # ---- substitutions on expressions and predicates
        alias = item[2]
        as_pred = item[3]
        if as_pred:
            if not boolean:
                return ('illtyped', 'not boolean', None, None)
            try:
                subject = HplPredicateExpression(ast)
            except TypeError:
                return ('illtyped', 'predicate', None, None)
            f = subject.condition
        else:
            subject = f = ast
        fn = replace_this_with_var if op == 'this2var' else replace_var_with_this
        try:
            out = fn(subject, alias)
        except TypeError as e:
            if as_pred:
                return ('allowed-exc', None, None, None)  # exactness of this licence is C14's obligation
            raise
        g = out.condition if as_pred else out
        if as_pred and not out.is_predicate:
            return ('finding', f'{op}-kind@{text}', f'{op}: predicate in, {out!r} out', rep)
        # independent walker: nothing of the replaced kind is left
        if op == 'this2var' and any(sem.kind(n) == 'HplThisMessage' for n in sem.walk_nodes(g)):
            return ('finding', f'this2var-leftover@{alias}@{text}', f'replace_this_with_var({text}, {alias}) = {g} still references the current message', rep)
        if op == 'var2this' and sem.mentions_var(g, alias):
            return ('finding', f'var2this-leftover@{alias}@{text}', f'replace_var_with_this({text}, {alias}) = {g} still mentions @{alias}', rep)
        bad = rw.check_valid(g)
        if bad:
            return ('finding', f'{op}-invalid@{alias}@{text}', f'{op}({text}, {alias}) = {g} is invalid: {bad}', rep)
        # round trip when the alias / the current message is not otherwise used
        if op == 'this2var' and not sem.mentions_var(f, alias):
            back = replace_var_with_this(out, alias)
            if (back.condition if as_pred else back) != f:
                return ('finding', f'roundtrip-this2var@{alias}@{text}', f'var->this(this->var({text})) = {back}', rep)
        if op == 'var2this' and not any(sem.kind(n) == 'HplThisMessage' for n in sem.walk_nodes(f)):
            back = replace_this_with_var(out, alias)
            if (back.condition if as_pred else back) != f:
                return ('finding', f'roundtrip-var2this@{alias}@{text}', f'this->var(var->this({text})) = {back}', rep)
        if g == f:
            return ('identity', None, None, 0.0)
        return _eq(f'{op}-meaning', f'{alias}@{text}', f, [g], rep, aliases_in={alias: Val.M(THIS)})
    except Exception as e:
        return ('finding', f'{op}:{rw.exc_signature(e)}@{text}', f'{op} on {text} raised {type(e).__name__}: {short(e, 120)}', rep)


worker = rw.make_worker(case)


def main() -> int:
    from vf.checks.c10 import run
    ck = Check('C13', 'other', 'real negate/join/replace_this_with_var/replace_var_with_this/HplSimpleEvent alias normalisation executed on enumerated trees; '
               'z3 decides the stated semantic identity for all valuations, with the alias bound to the current message where the statement says so')
    ck.functions('hpl.ast.predicates.HplPredicateExpression.negate/join', 'hpl.ast.predicates.HplVacuousTruth/HplContradiction.negate/join',
                 'hpl.ast.expressions.*.replace/reshape/replace_self_reference/replace_var_reference', 'hpl.rewrite.replace_this_with_var',
                 'hpl.rewrite.replace_var_with_this', 'hpl.ast.events.HplSimpleEvent.__attrs_post_init__/external_references')
    base = families.boolean_families(ck.tier, alias_heavy=True)
    slot = families.slot_family()
    n_rand = 1500 if ck.tier == 'quick' else 12000
    rnd = families.uniq(families.random_specs(ck.seed + 13, n_rand * 2, 4 if ck.tier == 'quick' else 5))[:n_rand]
    fams = {}
    step = 2 if ck.tier == 'thorough' else 3   # thorough also gets the larger families of boolean_families('thorough') (about 5x the quick trees)
    for name, specs in list(base.items()) + [('random(seed)', rnd)]:
        items = []
        for i, s in enumerate(specs[::step]):
            items.append((s, 'negate'))
            items.append((s, 'this2var', 'A', i % 2 == 0))
            items.append((s, 'var2this', 'A', i % 2 == 1))
            items.append((s, 'event', 'A'))
            if i % 3 == 0:
                items.append((s, 'this2var', 'N', False))
                items.append((s, 'var2this', 'B', False))
                items.append((s, 'join', specs[(i * 7 + 3) % len(specs)]))
        fams[name] = items
    items = []
    for s in slot:
        items += [(s, 'this2var', 'A', False), (s, 'var2this', 'A', False), (s, 'this2var', 'N', False), (s, 'event', 'A'), (s, 'negate')]
    fams['every-child-slot'] = items
    total, nontrivial = run_items(ck, fams)
    ck.bound('cases', f'{total} (tree, operation, alias) cases: C09/C10 families + one tree per (node kind x child slot) carrying this/@A references')
    ck.bound('valuations', f'all; arrays/abstract range lists of length 0..{K}; substitution identities are evaluated with @alias bound to the current message')
    ck.coverage['evaluations'] = total
    ck.coverage['distinct_nontrivial'] = nontrivial
    ck.coverage['rule'] = 'one case = one real API call + one z3 query; non-trivial = output differs structurally from input, definedness satisfiable, query unsat'
    ck.outside('aliases equal to a quantified variable name (captured: excluded by the statement)')
    return ck.finish()


def run_items(ck, fams, count_queries=True, label='EQ'):
    import time
    from vf import par
    stats = {}
    total = 0
    nontrivial = set()
    for fname, items in fams.items():
        t0 = time.time()
        results = [x for c in par.pmap_chunks(worker, items, 150) for x in c]
        st = {}
        for item, (status, sig, what, rep), secs in results:
            st[status] = st.get(status, 0) + 1
            total += 1
            if status in ('ok', 'vacuous'):
                ck.obligation(True)
                if count_queries:
                    ck.query('unsat', rep or 0.0)
                if status == 'ok':
                    nontrivial.add(item)
            elif status in ('identity', 'allowed-exc'):
                ck.obligation(True)
            elif status == 'finding':
                ck.obligation(False)
                ck.counterexample(sig, what, rep)
            elif status == 'unknown':
                ck.query('unknown')
                if 'random' in fname:
                    # seed-selected ADDITIONAL tree that the solver could not decide: excluded from the claim, listed in the evidence
                    ck.coverage.setdefault('undecided_seeded_trees', []).append(str(what)[:200])
                else:
                    ck.obligation(None)
                    ck.undecided(what)
        st['wall_s'] = round(time.time() - t0, 1)
        stats[fname] = st
        if items:
            it = items[len(items) // 2]
            ck.sample({'family': fname, 'tree': gen.render(it[0]), 'operation': it[1], 'args': [gen.render(a) if isinstance(a, tuple) else a for a in it[2:]]})
    ck.engine(label, families=stats, cases=total, array_slots_K=K)
    return total, len(nontrivial)


def replay(data) -> int:
    print('recorded:', data.get('what'))
    item = (rw.tuplify(data['spec']), data['kind']) + tuple(rw.tuplify(x) if isinstance(x, list) else x for x in data.get('extra', []))
    print('re-run  :', case(item)[:3])
    return 1
