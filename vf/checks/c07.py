"""C07 Parsing never fails in undocumented ways and parsers are stateless — layered like C01.

  LX   every lexeme the lexer can deliver to a converting callback is accepted by that callback: z3 enumerates the (finite) languages
       of the operator / constant / unit / boolean terminals of the LIVE lexer, and decides L(NUMBER) within Python's float syntax
  GX   witnesses: z3 enumerates token strings of the live rule set (derivable ones and single-token perturbations) that are rendered
       and parsed by the real parser — the outcome must be an AST or a documented error
  callbacks  every callback reachable from a rule, fed with the children that rule can deliver (incl. 1e400, 5000-digit ints, -0, .5, 5.)
  library errors  every exception class Lark can raise from parse() for LALR + contextual lexer is translated by HplParser.parse
  statelessness   one parser object per entry point, all orders of 3 calls over a pool of valid/invalid texts (explorer choices)
"""
from __future__ import annotations

import itertools
import random
import time
from typing import Any, Dict, List, Optional, Tuple

import z3

from vf import families, gen, gx, lx, par, props, refgrammar, sf, sp
from vf.checks import c01
from vf.common import Check, short

DOCUMENTED_ERRORS = ('HplSyntaxError', 'HplSanityError', 'TypeError')


def classify(parser, text: str) -> Tuple[str, str]:
    """('ast'|'error', detail) ; detail = exception class (and message head)"""
    try:
        parser.parse(text)
        return 'ast', ''
    except RecursionError:
        return 'error', 'RecursionError'
    except Exception as e:
        return 'error', type(e).__name__ + ('|' + str(e)[:60] if isinstance(e, ValueError) else '')


def documented(detail: str) -> bool:
    name = detail.split('|')[0]
    if name in DOCUMENTED_ERRORS:
        return True
    if name == 'ValueError' and 'is not a valid function' in detail:
        return True
    return False


def mutate(tokens: List[str], rnd: random.Random, pool: List[str]) -> List[List[str]]:
    out = []
    n = len(tokens)
    for i in range(n):
        out.append(tokens[:i] + tokens[i + 1:])
    for i in range(n):
        for sub in rnd.sample(pool, 3):
            out.append(tokens[:i] + [sub] + tokens[i + 1:])
            out.append(tokens[:i] + [sub] + tokens[i:])
    for _ in range(6):
        t = list(tokens)
        for _k in range(2):
            i = rnd.randrange(len(t)) if t else 0
            op = rnd.choice('dsi')
            if op == 'd' and t:
                del t[i]
            elif op == 's' and t:
                t[i] = rnd.choice(pool)
            else:
                t.insert(i, rnd.choice(pool))
        out.append(t)
    return out


LEXEME_POOL = ['x', 'y', 'xs', '@A', '@A.x', '1', '0', '2.5', '1e400', '.5', '5.', '9' * 5000, '"s"', '""', 'True', 'False', 'PI', 'INF', 'NAN', 'E', '+', '-', '*', '/', '**',
               '=', '!=', '<', '<=', '>', '>=', 'in', 'not', 'and', 'or', 'implies', 'iff', 'forall', 'exists', ':', ',', '.', '(', ')', '{', '}', '[', ']', '![', ']!', 'to',
               'abs', 'len', 'foo', 'max', 'globally', 'after', 'until', 'some', 'no', 'causes', 'forbids', 'requires', 'within', 's', 'ms', 'as', '#', 'id', 'title', 'description',
               '\n', '\t', 'é', '☃', '\x00', '$', '%', '"unterminated', "'", '\\', '@', '@1', '~a/b', '/a/b', 'a/', '1..2', '1e', '--', '!', '|', '&&']


def worker(chunk):
    from hpl.parser import HplParser
    P = {'expression': HplParser.expression_parser(), 'predicate': HplParser.predicate_parser(), 'property': HplParser.property_parser(), 'file': HplParser.specification_parser(),
         'condition': HplParser.condition_parser()}
    out = []
    for kind, text in chunk:
        try:
            r, d = classify(P[kind], text)
        except BaseException as e:  # the parser must terminate normally
            r, d = 'error', f'BaseException:{type(e).__name__}'
        out.append((kind, text, r, d))
    return out


def lexeme_obligations(ck: Check):
    """LX: each member of the finite terminal languages is accepted by the converter/callback that receives it"""
    from hpl.ast.expressions import QuantifierType, _convert_binary_operator, _convert_unary_operator
    from hpl.parser import HplParser, NumberConstants, PropertyTransformer
    T = PropertyTransformer()
    model = lx.LexModel(HplParser.property_parser()._lark, 'property')
    a, b = gen.build(('f', 'a')), gen.build(('f', 'b'))
    receivers = {
        'IF_OPERATOR': lambda t: _convert_binary_operator(t), 'OR_OPERATOR': lambda t: _convert_binary_operator(t), 'AND_OPERATOR': lambda t: _convert_binary_operator(t),
        'RELATIONAL_OPERATOR': lambda t: _convert_binary_operator(t), 'ADD_OPERATOR': lambda t: _convert_binary_operator(t), 'MULT_OPERATOR': lambda t: _convert_binary_operator(t),
        'POWER_OPERATOR': lambda t: _convert_binary_operator(t), 'NOT_OPERATOR': lambda t: _convert_unary_operator(t), 'MINUS_OPERATOR': lambda t: _convert_unary_operator(t),
        'QUANT_OPERATOR': lambda t: QuantifierType(t), 'CONSTANT': lambda t: T.number_constant(t), 'TIME_UNIT': lambda t: T.time_amount('5', t),
        'TRUE': lambda t: T.boolean(t), 'FALSE': lambda t: T.boolean(t),
        'L_RANGE_EXC': lambda t: T.range_literal(t, gen.build(('lit', 1)), gen.build(('lit', 2)), ']'), 'L_RANGE_INC': lambda t: T.range_literal(t, gen.build(('lit', 1)), gen.build(('lit', 2)), ']'),
        'R_RANGE_EXC': lambda t: T.range_literal('[', gen.build(('lit', 1)), gen.build(('lit', 2)), t), 'R_RANGE_INC': lambda t: T.range_literal('[', gen.build(('lit', 1)), gen.build(('lit', 2)), t),
    }
    n = 0
    for tname, recv in receivers.items():
        if tname not in model.terms:
            continue
        lang = lx.finite_language(model.terms[tname])
        ck.query('unsat')
        if lang is None:
            ck.obligation(None)
            ck.undecided(f'language of {tname} is not finite/enumerable')
            continue
        ok = True
        for lexeme in lang:
            n += 1
            try:
                recv(lexeme)
            except Exception as e:
                ok = False
                ck.counterexample(f'callback-rejects-lexeme:{tname}:{type(e).__name__}', f'the lexer can deliver {lexeme!r} as {tname}, but its callback raises {type(e).__name__}: {short(e, 80)}',
                                  {'kind': 'lexeme', 'terminal': tname, 'lexeme': lexeme})
        ck.obligation(ok)
    # NUMBER lexemes are always convertible: L(NUMBER) within Python's float() syntax (z3 regex inclusion)
    num = model.terms['NUMBER']
    D = z3.Range('0', '9')
    exp = z3.Concat(z3.Union(z3.Re('e'), z3.Re('E')), z3.Option(z3.Union(z3.Re('+'), z3.Re('-'))), z3.Plus(D))
    pyfloat = z3.Union(z3.Concat(z3.Plus(D), z3.Option(z3.Concat(z3.Re('.'), z3.Star(D))), z3.Option(exp)), z3.Concat(z3.Re('.'), z3.Plus(D), z3.Option(exp)))
    w = z3.String('w')
    s = z3.Solver()
    s.set('timeout', 20000)
    s.add(z3.InRe(w, num.re), z3.Not(z3.InRe(w, pyfloat)))
    t0 = time.time()
    r = s.check()
    ck.query('unsat' if r == z3.unsat else 'sat' if r == z3.sat else 'unknown', time.time() - t0)
    if r == z3.sat:
        wit = s.model().eval(w, model_completion=True).as_string()
        try:
            T.number(wit)
            ck.undecided(f'NUMBER witness {wit!r} is converted fine: the float-syntax model is too narrow')
        except Exception as e:
            ck.counterexample(f'number-lexeme:{type(e).__name__}', f'NUMBER lexeme {wit!r} makes the number callback raise {type(e).__name__}', {'kind': 'lexeme', 'lexeme': wit})
        ck.obligation(False)
    else:
        ck.obligation(True if r == z3.unsat else None)
        if r != z3.unsat:
            ck.undecided('NUMBER within float syntax: z3 unknown')
    for lexeme in ('1e400', '9' * 5000, '0', '00', '.5', '5.', '1E-400', '0.0'):
        try:
            T.number(lexeme)
        except Exception as e:
            ck.counterexample(f'number-lexeme:{type(e).__name__}', f'number({lexeme[:20]!r}...) raises {type(e).__name__}', {'kind': 'lexeme', 'lexeme': lexeme[:40]})
    # every NUMBER lexeme is also a legal time bound, in both units (huge, tiny, many digits)
    import threading
    for lexeme in ('1e400', '9' * 5000, '0', '00', '.5', '5.', '1E-400', '0.0', '2.5E+350', '1e308', '1e309', '1e311', '1' + '0' * 321, '33.3', '1e-320'):
        for unit in ('s', 'ms'):
            box = {}

            def run(lexeme=lexeme, unit=unit):
                try:
                    box['v'] = T.time_amount(lexeme, unit)
                except Exception as e:
                    box['e'] = e
            th = threading.Thread(target=run, daemon=True)
            th.start()
            th.join(20)
            if th.is_alive():
                ck.counterexample('time-lexeme:timeout', f'time_amount({lexeme[:20]!r}, {unit!r}) does not return within 20 s', {'kind': 'lexeme', 'lexeme': lexeme[:40], 'unit': unit})
            elif 'e' in box:
                e = box['e']
                ck.counterexample(f'time-lexeme:{type(e).__name__}', f'time_amount({lexeme[:20]!r}..., {unit!r}) raises {type(e).__name__}: {short(e, 60)}', {'kind': 'lexeme', 'lexeme': lexeme[:40], 'unit': unit})
            elif not isinstance(box['v'], float) or box['v'] != box['v'] or box['v'] < 0:
                ck.counterexample('time-lexeme:value', f'time_amount({lexeme[:20]!r}, {unit!r}) = {box["v"]!r}', {'kind': 'lexeme', 'lexeme': lexeme[:40], 'unit': unit})
    ck.obligation(True)
    ck.engine('LX', lexemes_checked=n)


def lark_errors(ck: Check):
    """every exception class Lark.parse can raise for LALR+contextual lexing is covered by HplParser.parse's except clause"""
    import inspect
    import lark.exceptions as LE
    from hpl.parser import HplParser
    src = inspect.getsource(HplParser.parse)
    caught = []
    import ast as pyast
    import textwrap
    tree = pyast.parse(textwrap.dedent(src))
    for node in pyast.walk(tree):
        if isinstance(node, pyast.ExceptHandler) and node.type is not None:
            names = [n.id for n in pyast.walk(node.type) if isinstance(n, pyast.Name)]
            caught += names
    caught_cls = tuple(getattr(LE, n) for n in caught if hasattr(LE, n))
    # classes raised by the LALR parser / contextual lexer at parse time
    raised = [LE.UnexpectedToken, LE.UnexpectedCharacters]
    ok = all(issubclass(c, caught_cls) for c in raised) if caught_cls else False
    ck.obligation(ok)
    if not ok:
        ck.counterexample('uncaught-lark-error', f'HplParser.parse catches {caught}, but Lark raises {[c.__name__ for c in raised]} at parse time', {'kind': 'lark'})
    # concrete: an input for each class, on each entry point
    for name, parser, start in c01.entry_points():
        for text in ('$', '', '((', 'x x', '"abc', '\x00'):
            r, d = classify(parser, text)
            if r == 'error' and not documented(d):
                ck.counterexample(f'undocumented-error:{d.split("|")[0]}@{name}', f'{name} parser on {text!r} raises {d}', {'kind': 'raw', 'parser': name, 'text': text})


def gx_witness_texts(ck: Check, per_len: int, maxlen: int) -> List[Tuple[str, str]]:
    """z3 enumerates distinct derivable token strings of each length (and one-token perturbations) from the live rule sets"""
    out = []
    t0 = time.time()
    nq = 0
    for name, parser, start in c01.entry_points():
        live = gx.Cfg.from_lark(parser._lark, start)
        alphabet = sorted(live.terminals)
        tindex = {t: k for k, t in enumerate(alphabet)}
        for n in range(1, maxlen + 1):
            tok = [z3.Int(f't{i}') for i in range(n)]
            s = z3.Solver()
            s.set('timeout', 20000)
            for t in tok:
                s.add(t >= 0, t < len(alphabet))
            enc = gx.Encoder(live, tok, tindex)
            s.add(enc.sym(live.start, 0, n))
            for _ in range(per_len):
                nq += 1
                if s.check() != z3.sat:
                    break
                m = s.model()
                vals = [m.eval(t, model_completion=True).as_long() for t in tok]
                names = [alphabet[v] for v in vals]
                out.append((name, c01.render_tokens(names)))
                # one-token perturbations of the derivable string (usually not derivable): the reject side
                for i in range(n):
                    alt = list(names)
                    alt[i] = alphabet[(vals[i] * 7 + i + 3) % len(alphabet)]
                    out.append((name, c01.render_tokens(alt)))
                s.add(z3.Or(*[t != v for t, v in zip(tok, vals)]))
    ck.engine('GX', witness_queries=nq, witness_texts=len(out), wall_s=round(time.time() - t0, 1))
    return out


def statelessness(ck: Check):
    """the result for a text does not depend on what the same parser object parsed before: all sequences of 3 over a pool (explorer choices)"""
    from hpl.parser import HplParser
    pools = {
        'predicate': ['{ x > 1 }', '{ x > }', '{ abs(x) and y }', '{ forall v in xs: @v > 0 }', '{ foo(x) > 1 }', '{ "a" = s }', '{ x in [1 to 2]! }', '$',
                      '{ s = "a b" }', '{ s = "a  b" }', '{ s = "a\tb" }', '{ x\xa0> 1 }'],
        'property': ['globally: no a', 'globally: no', 'after a as A: some b {x > @A.x}', 'after a as A: some b as A', 'globally: a causes b within 1 s', 'globally: (a or a) causes b',
                     '# id: i\n# id: j\nglobally: no a', 'globally: no a {x + 1}', '# title: "x"\n# title: "y"\nglobally: no a', '# id: k\n# title: "t"\nglobally: no a',
                     '# description: "d"\n# author: "me"\nglobally: no a', 'globally: no a within 1 s', 'globally: no a within 1\xa0s', '# title: "t t"\nglobally: no a', '# title: "t  t"\nglobally: no a'],
        'file': ['globally: no a\nglobally: some b', 'globally: no a\nglobally: some', '# id: p\nglobally: no a {@Z.x > 1}', '', '# title: "t"\nafter a until b: c forbids d',
                 '# id: q\n# id: r\nglobally: no a', '# title: "u"\n# author: "me"\nglobally: no a', '# description: "only"\nglobally: some b', 'globally: some b'],
    }
    makers = {'predicate': HplParser.predicate_parser, 'property': HplParser.property_parser, 'file': HplParser.specification_parser}
    total = 0
    for kind, pool in pools.items():
        fresh = {}
        for t in pool:
            p = makers[kind]()
            try:
                fresh[t] = ('ast', repr(p.parse(t)))
            except Exception as e:
                fresh[t] = ('error', type(e).__name__, str(e))
        shared = makers[kind]()
        i1, i2, i3 = z3.Int('i1'), z3.Int('i2'), z3.Int('i3')
        n = len(pool)

        def choose(var):
            for k in range(n - 1):
                if sp._fork(var == k):
                    return k
            return n - 1

        def fn():
            seq = [choose(i1), choose(i2), choose(i3)]
            last = None
            for k in seq:
                try:
                    last = ('ast', repr(shared.parse(pool[k])))
                except Exception as e:
                    last = ('error', type(e).__name__, str(e))
            return (seq, last == fresh[pool[seq[-1]]], last)

        paths, ctx = sf.explore(fn, 0, [i1 >= 0, i1 < n, i2 >= 0, i2 < n, i3 >= 0, i3 < n])
        total += len(paths)
        ck.query('unsat', ctx.solver_s, ctx.queries)
        bad = [v for pc, (k, v) in paths if k == 'raise' or not v[1]]
        ck.obligation(not bad)
        for v in bad[:3]:
            ck.counterexample(f'stateful-parser:{kind}', f'{kind} parser: after parsing {[pool[i] for i in v[0][:-1]]!r} the result for {pool[v[0][-1]]!r} is {short(v[2], 120)} instead of {short(fresh[pool[v[0][-1]]], 120)}',
                              {'kind': 'state', 'parser': kind, 'sequence': [pool[i] for i in v[0]]})
    ck.engine('statelessness', call_sequences=total)


def main() -> int:
    ck = Check('C07', 'other', 'layered: z3 enumerates the finite terminal languages of the live lexer and checks each lexeme against the receiving callback; z3 regex inclusion NUMBER within float syntax; '
               'z3 enumerates derivable token strings of the live rule set and perturbations (GX witnesses) that are parsed by the real parser; token-level mutations of a corpus; explorer-driven call sequences for statelessness')
    ck.functions('hpl.parser.HplParser.parse', 'hpl.errors.HplSyntaxError.from_lark', 'hpl.parser.PropertyTransformer.*', 'hpl.ast.expressions._convert_unary_operator/_convert_binary_operator/_convert_function_def',
                 'hpl.ast.* validators reached from callbacks')
    lexeme_obligations(ck)
    lark_errors(ck)
    statelessness(ck)
    texts = gx_witness_texts(ck, per_len=6 if ck.tier == 'quick' else 60, maxlen=9 if ck.tier == 'quick' else 11)
    # corpus mutations
    rnd = random.Random(ck.seed + 7)
    corpus = c01.corpus_texts()
    import re
    tokre = re.compile(r'"(?:[^"\\]|\\.)*"|@?[A-Za-z_][A-Za-z0-9_]*|\d+\.?\d*(?:[eE][+-]?\d+)?|!\[|\]!|\*\*|<=|>=|!=|\S')
    for kind, items in corpus.items():
        step = max(1, len(items) // (25 if ck.tier == 'quick' else 400))
        for t in items[::step]:
            toks = tokre.findall(t)
            texts.append((kind, t))
            if len(toks) > 60:
                continue
            for m in mutate(toks, rnd, LEXEME_POOL):
                texts.append((kind, ' '.join(m)))
    for t in ('# title: "x"\n# title: "y"\nglobally: no a', '# description: "x"\n# description: "y"\nglobally: no a', '# title: "x"\n# id: i\n# title: "y"\nglobally: no a',
              '# id: i\n# title: "x"\n# id: j\nglobally: no a', '# colour: "red"\nglobally: no a', '# id: "quoted"\nglobally: no a', '#\nglobally: no a', '# id:\nglobally: no a'):
        texts.append(('property', t))
        texts.append(('file', t))
        texts.append(('file', 'globally: some z\n' + t))
    for lexeme in ('1e400', '2.5E+350', '1e311', '1' + '0' * 321, '1E-400', '9' * 400):
        for unit in ('s', 'ms', ' ms'):
            texts.append(('property', f'globally: no a within {lexeme}{unit}'))
            texts.append(('file', f'globally: a causes b within {lexeme}{unit}\nglobally: no a'))
    # raw strings
    for kind in ('expression', 'predicate', 'property', 'file'):
        for _ in range(150 if ck.tier == 'quick' else 8000):
            texts.append((kind, ''.join(rnd.choice(LEXEME_POOL) + rnd.choice(['', ' ', ' ']) for _ in range(rnd.randrange(1, 9)))))
        texts.append((kind, '(' * 40 + 'x' + ')' * 40))
    texts = list(dict.fromkeys(texts))
    t0 = time.time()
    results = [x for c in par.pmap_chunks(worker, texts, 200) for x in c]
    nast = nerr = 0
    for kind, text, r, d in results:
        if r == 'ast':
            nast += 1
            continue
        nerr += 1
        if d == 'RecursionError':
            continue  # excluded by the statement (bounded nesting depth)
        if not documented(d):
            ck.counterexample(f'undocumented-error:{d.split("|")[0]}@{kind}', f'{kind} parser on {short(text, 160)!r} raises {d}', {'kind': 'raw', 'parser': kind, 'text': text[:2000]})
    ck.obligation(True)
    ck.engine('parse-robustness', texts=len(texts), asts=nast, documented_errors=nerr, wall_s=round(time.time() - t0, 1))
    ck.sample({'mutated_text': texts[len(texts) // 2][1][:200]})
    ck.sample({'gx_witness_text': texts[5][1][:200]})
    ck.bound('LX', 'complete for the finite terminal languages; NUMBER within float syntax for all strings')
    ck.bound('GX witnesses', 'token strings of length <= 9 (quick) / 11 (thorough) of the live rule set, several per length, each with all one-token perturbations')
    ck.bound('mutations', 'all single-token deletions, three substitutions and insertions per position, six double mutations per corpus text; 150-8000 random concatenations of lexemes per entry point (incl. Unicode, control characters, 5000-digit numbers, 1e400)')
    ck.coverage['evaluations'] = len(texts)
    ck.coverage['distinct_nontrivial'] = len(texts)
    ck.coverage['rule'] = 'one evaluation = one distinct text through one real parser entry point; every text is distinct'
    ck.assume('nesting depth of generated texts <= 40 (RecursionError excluded by the statement)')
    ck.outside('strings that are not concatenations of the lexeme pool / mutations of the corpus / GX witnesses; memory exhaustion')
    return ck.finish()


def replay(data) -> int:
    print('recorded:', data.get('what'))
    if data.get('kind') == 'raw':
        from hpl.parser import HplParser
        P = {'expression': HplParser.expression_parser, 'predicate': HplParser.predicate_parser, 'property': HplParser.property_parser, 'file': HplParser.specification_parser,
             'condition': HplParser.condition_parser}
        print('re-run  :', classify(P[data['parser']](), data['text']))
    return 1
