"""C11 canonical_form is an exact, order-stable decomposition."""
from __future__ import annotations

import itertools
import os
import time
from typing import Any, Dict, List

from vf import props, sx
from vf.common import Check, short
from vf.harness import c11_sx

BOUNDS = {'quick': (2, 2), 'thorough': (3, 2)}  # (max width of the two split positions, max width of the other positions)


def pre_for(tier: str, si: int, pi: int) -> str:
    split_w, other_w = BOUNDS[tier]
    scope, pattern = props.SCOPES[si], props.PATTERNS[pi]
    pos = props.SPLIT[pattern]
    w = {}
    w['wa'] = split_w if scope in ('after', 'after_until') else 1
    w['wq'] = other_w if scope in ('until', 'after_until') else 1
    w['wt'] = (split_w if pos == 'trigger' else other_w) if pattern in ('response', 'prevention', 'requirement') else 1
    w['wb'] = split_w if pos == 'behaviour' else other_w
    parts = [f'1 <= {k} <= {v}' if v > 1 else f'{k} == 1' for k, v in w.items()]
    parts.append('max_time >= 0')
    parts.append(f'len(title) <= {3 if tier == "quick" else 4}')
    return ' and '.join(parts)


def title_expr(tier: str, deco: int) -> str:
    # metadata handling does not depend on the decoration mode: in the quick tier the title is symbolic for mode 0 only
    return 'title' if tier == 'thorough' or deco == 0 else "'T'"


def sx_names():
    return [(s, p, d) for s in range(4) for p in range(5) for d in range(4)]


def sx_module(tier: str, totality: bool = False):
    src = ['from vf.harness.c11_sx import body\n']
    for si, pi, deco in sx_names():
        for pre, twin in (('h', False), ('t', True)):
            src.append(f'''
def {pre}_{si}{pi}{deco}(wa: int, wq: int, wt: int, wb: int, max_time: float, bounded: bool, title: str) -> bool:
    """
    pre: {pre_for(tier, si, pi)}
    post: _
    """
    return body({si}, {pi}, wa, wq, wt, wb, {deco}, max_time, bounded, {title_expr(tier, deco)}, twin={twin}, totality={totality}) is None
''')
    return sx.write_module('c14_c11_h' if totality else 'c11_h', ''.join(src))


def concrete_specs(tier: str):
    """concrete enumeration used (a) to establish the known-finding class on the real code, (b) as translator validation"""
    W = (1, 2, 3) if tier == 'quick' else (1, 2, 3, 4)
    for si in range(4):
        for pi in range(5):
            for wa, wq, wt, wb in itertools.product(W, (1, 2), W, W):
                for deco in range(4):
                    for mt in (None, 0.0, 0.25, 3.0):
                        yield (si, pi, wa, wq, wt, wb, deco, mt, 'or')
                if max(wa, wt, wb) >= 3:
                    for nest in ('orL', 'orB'):
                        yield (si, pi, wa, wq, wt, wb, 1, 0.25, nest)
                    yield (si, pi, wa, wq, wt, wb, 0, 1.0014, 'slashy')   # look-alike topic names; a bound that is not a whole number of ms
                    yield (si, pi, wa, wq, wt, wb, 1, 0.00049, 'slashy')


def run_concrete(ck: Check, totality: bool = False):
    n = bad = known = 0
    seen = set()
    for (si, pi, wa, wq, wt, wb, deco, mt, nest) in concrete_specs(ck.tier):
        props.SLASHY[0] = (nest == 'slashy')
        try:
            spec = c11_sx.mk(si, pi, wa, wq, wt, wb, deco, mt, 'T', 'or' if nest == 'slashy' else nest)
        finally:
            props.SLASHY[0] = False
        key = props.render_property(spec) + ('' if nest == 'or' else f'  [{nest}]')
        if key in seen:
            continue
        seen.add(key)
        if props.binding_verdict(spec) is not None:
            continue
        n += 1
        try:
            r = c11_sx.check(spec, totality=totality)
        except Exception as e:
            r = ('harness-exception', type(e).__name__, short(e, 150))
            ck.undecided(f'harness exception on {key}: {r}')
            continue
        if r is None:
            continue
        if r[0] == 'known':
            known += 1
            ck.counterexample(f'canonical_form:HplSanityError:{r[1]}', f'canonical_form raises HplSanityError on the valid property «{key}»',
                              {'kind': 'canonical_form', 'text': key, 'args': [si, pi, wa, wq, wt, wb, deco, mt], 'nest': nest})
        else:
            bad += 1
            ck.counterexample(f'canonical_form:{r[0]}@{key}', f'canonical_form on «{key}»: {r}', {'kind': 'canonical_form', 'text': key, 'args': [si, pi, wa, wq, wt, wb, deco, mt], 'nest': nest, 'observed': [str(x) for x in r]})
    return n, bad, known


def totality_only(ck: Check):
    """C14's share: canonical_form returns a non-empty list of properties on every valid property of the enumeration"""
    n, bad, known = run_concrete(ck, totality=True)
    ck.engine('canonical_form-totality', properties=n, failures=bad, known_class_instances=known)
    return n, bad


def run_sx(ck: Check, totality: bool = False):
    path = sx_module(ck.tier, totality)
    names = [f'h_{s}{p}{d}' for s, p, d in sx_names()]
    twins = [f't_{s}{p}{d}' for s, p, d in sx_names()]
    t0 = time.time()
    res = sx.run(path, names, cond_timeout=400.0 if ck.tier == 'quick' else 2400.0, per_batch=1)
    tw = sx.run(path, twins, cond_timeout=40.0, per_batch=5)
    conf = cex = unk = 0
    for s, p, d in sx_names():
        nm = f'{props.SCOPES[s]} x {props.PATTERNS[p]} x decoration {d}'
        r, t = res[f'h_{s}{p}{d}'], tw[f't_{s}{p}{d}']
        if r.status == 'confirmed' and t.status == 'counterexample':
            conf += 1
            ck.obligation(True)
            ck.query('unsat', r.secs)
        elif r.status == 'counterexample' and r.args is not None:
            cex += 1
            ck.obligation(False)
            ck.query('sat', r.secs)
            a, k = r.args
            try:
                a2 = list(a)
                got = c11_sx.body(s, p, a2[0], a2[1], a2[2], a2[3], d, *a2[4:], totality=totality, **k)
            except Exception as e:
                got = ('exception-in-replay', type(e).__name__, short(e, 120))
            if got is None:
                ck.undecided(f'SX counterexample for {nm} does not replay: {r.message[:200]}')
            else:
                ck.counterexample(f'sx:canonical_form:{got[0]}:{nm}', f'{nm} with (wa,wq,wt,wb,max_time,bounded,title)={a}{k}: {got}',
                                  {'kind': 'sx', 'scope': s, 'pattern': p, 'deco': d, 'args': a, 'kwargs': k, 'observed': [str(g) for g in got]})
        else:
            unk += 1
            ck.obligation(None)
            ck.query('unknown', r.secs)
            ck.undecided(f'SX {nm}: {r.status} {r.message[:140]} / twin {t.status}')
    ck.engine('SX', harness_functions=len(names), confirmed_over_all_paths=conf, counterexamples=cex, inconclusive=unk,
              wall_s=round(time.time() - t0, 1), bound=f'split positions width <= {BOUNDS[ck.tier][0]}, other positions <= {BOUNDS[ck.tier][1]}')


def main() -> int:
    ck = Check('C11', 'other', 'CrossHair executes the real canonical_form (and HplAstObject.but / attrs.evolve underneath) on properties whose disjunction '
               'widths, decoration mode, time bound (symbolic float), boundedness and metadata (symbolic string) are solver variables, one harness per '
               'scope kind x pattern kind, against the decomposition computed from the statement')
    ck.functions('hpl.rewrite.canonical_form', 'hpl.rewrite._canonical_form_safety', 'hpl.rewrite._canonical_form_liveness', 'hpl.rewrite._canonical_form_scopes',
                 'hpl.ast.events.HplEvent.simple_events', 'hpl.ast.base.HplAstObject.but', 'hpl.ast.properties.HplProperty.__attrs_post_init__')
    n, bad, known = run_concrete(ck)
    ck.obligation(bad == 0, 1)
    ck.engine('concrete-enumeration', properties=n, violations=bad, known_class_instances=known,
              note='plain-Python run of the same harness body over the width/decoration grid: establishes the recorded defect class on the real code and validates the harness')
    ck.sample({'property': props.render_property(c11_sx.mk(3, 2, 2, 1, 2, 1, 1, 0.25, 'T'))})
    ck.sample({'property': props.render_property(c11_sx.mk(1, 4, 3, 1, 1, 2, 2, None, 'T'))})
    if os.environ.get('VERIF_NO_SX') != '1':
        run_sx(ck)
    ck.bound('SX', f'widths of split positions 1..{BOUNDS[ck.tier][0]}, of other positions 1..{BOUNDS[ck.tier][1]}; max_time: any float >= 0 or unbounded; title: any string up to 3-4 chars; decoration modes: none / distinct aliases + own-field predicates / shared activator alias referenced later / distinct activator aliases referenced later')
    ck.coverage['evaluations'] = n
    ck.coverage['distinct_nontrivial'] = n
    ck.coverage['rule'] = 'concrete grid: distinct valid properties (by printed text) run through canonical_form and the statement oracle'
    ck.outside('disjunction widths above the bound; predicates beyond the two decoration templates; min_time other than the default')
    return ck.finish()


def replay(data) -> int:
    print('recorded:', data.get('what'))
    if data.get('kind') == 'canonical_form':
        spec = c11_sx.mk(*data['args'], 'T', data.get('nest', 'or'))
        print('re-run  :', c11_sx.check(spec))
    elif data.get('kind') == 'sx':
        a = data['args']
        print('re-run  :', c11_sx.body(data['scope'], data['pattern'], a[0], a[1], a[2], a[3], data['deco'], *a[4:], **data['kwargs']))
    return 1
