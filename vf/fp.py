"""FP engine: the float arithmetic of HplPattern.__str__ (printing a time bound) and PropertyTransformer.time_amount
(parsing it) is translated FROM THE CURRENT SOURCE (Python ast of the two real functions) into z3 Float64 terms.

Supported fragment (checked: anything else makes the translation fail loudly -> inconclusive, never a pass):
  assignments, if/elif/else, return, assert, f-strings, float constants, names, attribute self.max_time,
  + - * /, comparisons, boolean and/or/not, calls float(x) on the symbolic number token.

Printing is modelled as: the f-string contains ONE formatted float expression followed by the unit text ('s' / 'ms');
`repr` of a finite float round-trips through `float()` (CPython contract, stated assumption), so the number token that
the parser receives denotes exactly the printed float.
"""
from __future__ import annotations

import ast
import inspect
import textwrap
from typing import Any, Dict, List, Optional, Tuple

import z3

F64 = z3.Float64()
RM = z3.RNE()


class Unsupported(Exception):
    pass


def fconst(v: float):
    return z3.FPVal(float(v), F64)


class Branch:
    def __init__(self, guard, env):
        self.guard = guard
        self.env = env


def _expr(node, env: Dict[str, Any]):
    """-> ('fp', term) | ('bool', term) | ('str', python str) | ('fmt', [(kind, value)...])"""
    if isinstance(node, ast.Constant):
        v = node.value
        if v is None:
            return ('none', None)
        if isinstance(v, bool):
            return ('bool', z3.BoolVal(v))
        if isinstance(v, (int, float)):
            return ('fp', fconst(v))
        if isinstance(v, str):
            return ('str', v)
        raise Unsupported(f'constant {v!r}')
    if isinstance(node, ast.Name):
        if node.id in env:
            return env[node.id]
        if node.id == 'INF':
            return ('fp', z3.fpPlusInfinity(F64))
        raise Unsupported(f'name {node.id}')
    if isinstance(node, ast.Attribute):
        key = ast.unparse(node)
        if key in env:
            return env[key]
        if key.startswith('self.pattern_type.is_'):
            return ('bool', z3.BoolVal(False))  # the harness fixes the pattern kind (existence); all kinds append the same time text
        raise Unsupported(f'attribute {key}')
    if isinstance(node, ast.BinOp):
        a, b = _expr(node.left, env), _expr(node.right, env)
        if a[0] != 'fp' or b[0] != 'fp':
            raise Unsupported('non-float arithmetic')
        op = {ast.Mult: z3.fpMul, ast.Div: z3.fpDiv, ast.Add: z3.fpAdd, ast.Sub: z3.fpSub}.get(type(node.op))
        if op is None:
            raise Unsupported(f'operator {type(node.op).__name__}')
        return ('fp', op(RM, a[1], b[1]))
    if isinstance(node, ast.Compare) and len(node.ops) == 1:
        a, b = _expr(node.left, env), _expr(node.comparators[0], env)
        if a[0] == 'str' and b[0] == 'str':
            if isinstance(node.ops[0], ast.Eq):
                return ('bool', z3.BoolVal(a[1] == b[1]))
            raise Unsupported('string comparison')
        if a[0] != 'fp' or b[0] != 'fp':
            raise Unsupported('comparison of non-floats')
        op = {ast.Lt: z3.fpLT, ast.LtE: z3.fpLEQ, ast.Gt: z3.fpGT, ast.GtE: z3.fpGEQ, ast.Eq: z3.fpEQ, ast.NotEq: z3.fpNEQ}.get(type(node.ops[0]))
        if op is None:
            raise Unsupported('comparison operator')
        return ('bool', op(a[1], b[1]))
    if isinstance(node, ast.BoolOp):
        vals = [_expr(v, env) for v in node.values]
        if any(v[0] != 'bool' for v in vals):
            raise Unsupported('boolean operator on non-booleans')
        return ('bool', (z3.And if isinstance(node.op, ast.And) else z3.Or)(*[v[1] for v in vals]))
    if isinstance(node, ast.UnaryOp) and isinstance(node.op, ast.Not):
        v = _expr(node.operand, env)
        return ('bool', z3.Not(v[1]))
    if isinstance(node, ast.Call) and isinstance(node.func, ast.Name) and node.func.id in ('isinf', 'isnan') and len(node.args) == 1:
        v = _expr(node.args[0], env)
        if v[0] != 'fp':
            raise Unsupported('isinf/isnan of a non-float')
        return ('bool', z3.fpIsInf(v[1]) if node.func.id == 'isinf' else z3.fpIsNaN(v[1]))
    if isinstance(node, ast.Call) and isinstance(node.func, ast.Name) and node.func.id == 'isinstance' and len(node.args) == 2:
        key = f'isinstance:{ast.unparse(node.args[0])}:{ast.unparse(node.args[1])}'
        if key in env:
            return env[key]
        raise Unsupported(key)
    if isinstance(node, ast.Constant) and node.value is None:
        return ('none', None)
    if isinstance(node, ast.Call) and isinstance(node.func, ast.Name) and node.func.id == 'float' and len(node.args) == 1:
        v = _expr(node.args[0], env)
        if v[0] == 'fp':
            return v
        raise Unsupported('float() of a non-number')
    if isinstance(node, ast.JoinedStr):
        parts = []
        for p in node.values:
            if isinstance(p, ast.Constant):
                parts.append(('text', p.value))
            elif isinstance(p, ast.FormattedValue):
                if p.format_spec is not None or p.conversion not in (-1,):
                    raise Unsupported('format spec / conversion in f-string')
                v = _expr(p.value, env)
                if v[0] == 'fmt':
                    parts.extend(v[1])
                elif v[0] == 'str':
                    parts.append(('text', v[1]))
                elif v[0] == 'fp':
                    parts.append(('float', v[1]))
                else:
                    parts.append(('opaque', ast.unparse(p.value)))
            else:
                raise Unsupported('f-string part')
        return ('fmt', parts)
    raise Unsupported(f'expression {ast.unparse(node)}')


def _exec(stmts, branches: List[Branch], results: List[Tuple[Any, Any]], opaque_names=()):
    """symbolically execute straight-line code with ifs; results collects (guard, returned value)"""
    for st in stmts:
        if not branches:
            return
        if isinstance(st, ast.Expr) and isinstance(st.value, ast.Constant):
            continue  # docstring
        if isinstance(st, (ast.Assign, ast.AnnAssign)):
            tgt = st.targets[0] if isinstance(st, ast.Assign) else st.target
            if not isinstance(tgt, ast.Name):
                raise Unsupported('assignment target')
            for b in branches:
                try:
                    b.env[tgt.id] = _expr(st.value, b.env)
                except Unsupported:
                    b.env[tgt.id] = ('opaque', ast.unparse(st.value))
            continue
        if isinstance(st, ast.If):
            new: List[Branch] = []
            for b in branches:
                c = _expr(st.test, b.env)
                if c[0] == 'opaque' or c[0] != 'bool':
                    raise Unsupported(f'if condition {ast.unparse(st.test)}')
                bt = [Branch(z3.And(b.guard, c[1]), dict(b.env))]
                bf = [Branch(z3.And(b.guard, z3.Not(c[1])), dict(b.env))]
                bt = [x for x in bt if not z3.is_false(z3.simplify(x.guard))]
                bf = [x for x in bf if not z3.is_false(z3.simplify(x.guard))]
                _exec(st.body, bt, results)
                _exec(st.orelse, bf, results)
                new += bt + bf
            branches[:] = new
            continue
        if isinstance(st, ast.Return):
            for b in branches:
                results.append((b.guard, _expr(st.value, b.env) if st.value is not None else None))
            branches[:] = []
            return
        if isinstance(st, ast.Assert):
            for b in branches:
                c = _expr(st.test, b.env)
                b.guard = z3.And(b.guard, c[1])  # assertion failure = no result on that branch
            continue
        raise Unsupported(f'statement {type(st).__name__}')


def _func_ast(fn) -> ast.FunctionDef:
    src = textwrap.dedent(inspect.getsource(fn))
    return ast.parse(src).body[0]


def printed_time(str_fn, m):
    """[(guard, float term printed, unit)] for the time bound of HplPattern.__str__ with max_time = m"""
    fa = _func_ast(str_fn)
    env = {'self.max_time': ('fp', m), 'INF': ('fp', z3.fpPlusInfinity(F64))}
    # opaque parts of the pattern (events, pattern kind) do not influence the time text
    for nm in ('self.behaviour', 'self.trigger'):
        env[nm] = ('str', f'<{nm}>')
    env['self.pattern_type.is_existence'] = ('bool', z3.BoolVal(True))  # one pattern kind suffices: all kinds append the same {t}
    results: List[Tuple[Any, Any]] = []
    _exec(fa.body, [Branch(z3.BoolVal(True), env)], results)
    out = []
    for guard, val in results:
        if val is None or val[0] != 'fmt':
            raise Unsupported('__str__ does not return an f-string')
        floats = [p for p in val[1] if p[0] == 'float']
        text = ''.join(p[1] for p in val[1] if p[0] == 'text')
        if not floats:
            out.append((guard, None, None, text))
            continue
        if len(floats) != 1:
            raise Unsupported('more than one float printed')
        # unit = text immediately after the float
        idx = val[1].index(floats[0])
        after = ''.join(p[1] for p in val[1][idx + 1:] if p[0] == 'text').strip()
        unit = 'ms' if after.startswith('ms') else 's' if after.startswith('s') else None
        if unit is None:
            raise Unsupported(f'unit after the printed float: {after!r}')
        out.append((guard, floats[0][1], unit, text))
    return out


def parsed_time(time_amount_fn, num, unit: str):
    """[(guard, float term)] returned by PropertyTransformer.time_amount(num, unit) for a concrete unit"""
    fa = _func_ast(time_amount_fn)
    args = [a.arg for a in fa.args.args]
    env = {args[1]: ('fp', num), args[2]: ('str', unit)}
    results: List[Tuple[Any, Any]] = []
    _exec(fa.body, [Branch(z3.BoolVal(True), env)], results)
    out = []
    for guard, val in results:
        if val is None or val[0] != 'fp':
            raise Unsupported('time_amount does not return a float')
        out.append((guard, val[1]))
    return out


def roundtrip_query(str_fn, time_amount_fn, timeout_ms: int = 600000, extra=None):
    """z3: is there a finite max_time >= 0 whose printed bound parses back to a different float (or to none)?
    returns (verdict, witness float | None, seconds, description of the encoding)"""
    import time
    m = z3.FP('m', F64)
    pre = [z3.Not(z3.fpIsNaN(m)), z3.Not(z3.fpIsInf(m)), z3.fpGEQ(m, fconst(0.0))]
    if extra is not None:
        pre.append(extra(m))
    prints = printed_time(str_fn, m)
    bad = []
    desc = []
    for guard, term, unit, text in prints:
        if term is None:
            # no time printed: must only happen for unbounded patterns (max_time = INF), excluded by the precondition
            bad.append(guard)
            desc.append(f'branch without a time bound: {z3.simplify(guard)}')
            continue
        desc.append(f'prints <{z3.simplify(term)}>{unit}')
        ok_any = []
        for g2, val in parsed_time(time_amount_fn, term, unit):
            ok_any.append(z3.And(g2, z3.fpEQ(val, m)))
        bad.append(z3.And(guard, z3.Not(z3.Or(*ok_any)) if ok_any else z3.BoolVal(True)))
    s = z3.Solver()
    s.set('timeout', timeout_ms)
    s.add(*pre)
    s.add(z3.Or(*bad))
    t0 = time.time()
    r = s.check()
    dt = time.time() - t0
    if r == z3.unsat:
        return 'unsat', None, dt, desc
    if r != z3.sat:
        return 'unknown', None, dt, desc
    return 'sat', model_float(s.model(), m), dt, desc


def serializer_query(fn, timeout_ms: int = 60000):
    """z3: for a float attribute value v, hpl.cli._ast_object_serializer returns None exactly when v is infinite or NaN and v itself
    otherwise — decided for ALL doubles from the function's current source. returns (verdict, witness|None, seconds)"""
    import time
    fa = _func_ast(fn)
    args = [a.arg for a in fa.args.args]
    v = z3.FP('v', F64)
    env = {args[2]: ('fp', v), f'isinstance:{args[2]}:Enum': ('bool', z3.BoolVal(False)), f'isinstance:{args[2]}:float': ('bool', z3.BoolVal(True))}
    results: List[Tuple[Any, Any]] = []
    _exec(fa.body, [Branch(z3.BoolVal(True), env)], results)
    nonfinite = z3.Or(z3.fpIsInf(v), z3.fpIsNaN(v))
    bad = []
    cover = []
    for guard, val in results:
        cover.append(guard)
        if val is None or val[0] == 'none':
            bad.append(z3.And(guard, z3.Not(nonfinite)))
        elif val[0] == 'fp':
            bad.append(z3.And(guard, z3.Or(nonfinite, z3.Not(z3.fpEQ(val[1], v)))))
        else:
            bad.append(guard)
    bad.append(z3.Not(z3.Or(*cover)) if cover else z3.BoolVal(True))
    s = z3.Solver()
    s.set('timeout', timeout_ms)
    s.add(z3.Or(*bad))
    t0 = time.time()
    r = s.check()
    dt = time.time() - t0
    if r == z3.unsat:
        return 'unsat', None, dt
    if r != z3.sat:
        return 'unknown', None, dt
    return 'sat', model_float(s.model(), v), dt


def model_float(model, term) -> float:
    import struct
    mv = model.eval(term, model_completion=True)
    if z3.is_true(z3.simplify(z3.fpIsNaN(mv))):
        return float('nan')
    if z3.is_true(z3.simplify(z3.fpIsInf(mv))):
        return float('-inf') if z3.is_true(z3.simplify(z3.fpIsNegative(mv))) else float('inf')
    bits = z3.simplify(z3.fpToIEEEBV(mv)).as_long()
    return struct.unpack('<d', struct.pack('<Q', bits))[0]
