"""Property-level specs: events, scopes, patterns, properties — built through the real parser callbacks.

event spec : ('ev', name, alias|None, pred_spec|None)  |  ('or', ev, ev, ...)   (n-ary, source order)
prop spec  : {'scope': 'globally'|'after'|'until'|'after_until', 'pattern': 'existence'|'absence'|'response'|'prevention'|'requirement',
              'activator': ev|None, 'terminator': ev|None, 'trigger': ev|None, 'behaviour': ev, 'max_time': float|None (None = unbounded),
              'unit': 's'|'ms', 'meta': dict|None}
"""
from __future__ import annotations

from typing import Any, Dict, List, Optional, Tuple

from vf import gen

SCOPES = ('globally', 'after', 'until', 'after_until')
PATTERNS = ('existence', 'absence', 'response', 'prevention', 'requirement')
# which event position canonical_form splits, per the statement of C11
SPLIT = {'absence': 'behaviour', 'requirement': 'behaviour', 'prevention': 'behaviour', 'response': 'trigger', 'existence': None}


_EVENT_CACHE: Dict[Any, Any] = {}


def build_event_cached(ev):
    """events are opaque to the property-level code under test: build each distinct (concrete) event spec once, outside
    symbolic tracing, and share the immutable object between paths"""
    hit = _EVENT_CACHE.get(ev)
    if hit is None:
        try:
            from crosshair.tracers import NoTracing
            with NoTracing():
                hit = build_event(ev)
        except Exception:
            hit = build_event(ev)
        _EVENT_CACHE[ev] = hit
    return hit


def build_event(ev):
    T = gen.transformer()
    if ev[0] == 'ev':
        _, name, alias, pred = ev
        phi = None if pred is None else T.hpl_predicate(gen.build(pred))
        return T.event(T.channel_name(name), None if alias is None else T.alias(alias), phi)
    if ev[0] in ('orL', 'orB'):
        # nestings only the public constructors can produce: left-nested ((a or b) or c), balanced ((a or b) or (c or d))
        from hpl.ast import HplEventDisjunction
        parts = [build_event(e) for e in ev[1:]]
        if ev[0] == 'orL' or len(parts) < 4:
            cur = parts[0]
            for q in parts[1:]:
                cur = HplEventDisjunction(cur, q)
            return cur
        half = len(parts) // 2

        def chain(xs):
            cur = xs[-1]
            for q in reversed(xs[:-1]):
                cur = HplEventDisjunction(q, cur)
            return cur
        return HplEventDisjunction(chain(parts[:half]), chain(parts[half:]))
    return T.event_disjunction([build_event(e) for e in ev[1:]])


def build_scope(p, be=None):
    be = be or build_event
    T = gen.transformer()
    k = p['scope']
    if k == 'globally':
        return T.global_scope([])
    if k == 'after':
        return T.after_until(be(p['activator']), None)
    if k == 'after_until':
        return T.after_until(be(p['activator']), be(p['terminator']))
    return T.until(be(p['terminator']))


def build_pattern(p, max_time=None, be=None):
    be = be or build_event
    T = gen.transformer()
    k = p['pattern']
    t = p.get('max_time') if max_time is None else max_time
    b = be(p['behaviour'])
    if k == 'existence':
        return T.existence(b, t)
    if k == 'absence':
        return T.absence(b, t)
    a = be(p['trigger'])
    if k == 'response':
        return T.response(a, b, t)
    if k == 'prevention':
        return T.prevention(a, b, t)
    return T.requirement(b, a, t)


def build_property(p, max_time=None, cached_events: bool = False):
    T = gen.transformer()
    meta = p.get('meta')
    be = build_event_cached if cached_events else build_event
    return T.hpl_property(None if meta is None else dict(meta), build_scope(p, be), build_pattern(p, max_time, be))


def simple_events(ev) -> List[Any]:
    """alternatives of an event spec in source order"""
    if ev is None:
        return []
    if ev[0] == 'ev':
        return [ev]
    out = []
    for e in ev[1:]:  # 'or' / 'orL' / 'orB': same alternatives in the same source order, different nesting
        out.extend(simple_events(e))
    return out


def render_event(ev) -> str:
    if ev[0] == 'ev':
        _, name, alias, pred = ev
        s = name
        if alias is not None:
            s += f' as {alias}'
        if pred is not None:
            s += ' { ' + gen.render(pred) + ' }'
        return s
    return '(' + ' or '.join(render_event(e) for e in ev[1:]) + ')'


def render_time(p) -> str:
    t = p.get('max_time')
    if t is None:
        return ''
    if p.get('unit', 's') == 'ms':
        return f' within {p["ms_text"]} ms' if 'ms_text' in p else f' within {repr(t * 1000)} ms'
    return f' within {repr(float(t)) if isinstance(t, float) else t} s'


def render_property(p) -> str:
    k = p['scope']
    if k == 'globally':
        sc = 'globally'
    elif k == 'after':
        sc = f'after {render_event(p["activator"])}'
    elif k == 'after_until':
        sc = f'after {render_event(p["activator"])} until {render_event(p["terminator"])}'
    else:
        sc = f'until {render_event(p["terminator"])}'
    t = render_time(p)
    b = render_event(p['behaviour'])
    pk = p['pattern']
    if pk == 'existence':
        pt = f'some {b}{t}'
    elif pk == 'absence':
        pt = f'no {b}{t}'
    else:
        a = render_event(p['trigger'])
        pt = {'response': f'{a} causes {b}{t}', 'prevention': f'{a} forbids {b}{t}', 'requirement': f'{b} requires {a}{t}'}[pk]
    meta = p.get('meta') or {}
    head = ''.join(f'# {k}: {v if k == "id" else chr(34) + v + chr(34)}\n' for k, v in meta.items())
    return f'{head}{sc}: {pt}'


def has_activator(p) -> bool:
    return p['scope'] in ('after', 'after_until')


def has_terminator(p) -> bool:
    return p['scope'] in ('until', 'after_until')


def has_trigger(p) -> bool:
    return p['pattern'] in ('response', 'prevention', 'requirement')


SLASHY = [False]  # when set, alternatives of one event get ROS-style look-alike names: b0, /b0, ~b0, ns/b0, b1 ... (all different channels)


def topic_name(prefix: str, i: int) -> str:
    if not SLASHY[0]:
        return f'{prefix}{i}'
    forms = ['{p}{k}', '/{p}{k}', '~{p}{k}', 'ns/{p}{k}']
    return forms[i % 4].format(p=prefix, k=i // 4)


def mk_event(prefix: str, width: int, aliases: Optional[List[Optional[str]]] = None, preds: Optional[List[Any]] = None):
    evs = []
    for i in range(width):
        evs.append(('ev', topic_name(prefix, i), aliases[i] if aliases else None, preds[i] if preds else None))
    return evs[0] if width == 1 else ('or',) + tuple(evs)


# ---------------------------------------------------------------------------
# Oracles written from the property statements (independent of hpl.ast.properties)
# ---------------------------------------------------------------------------

def pred_free_vars(pred) -> set:
    """free @names of a predicate spec (quantified variables removed)"""
    def fv(s, bound):
        if s[0] == 'var':
            return set() if s[1] in bound else {s[1]}
        if s[0] == 'q':
            return fv(s[3], bound) | fv(s[4], bound | {s[2]})
        out = set()
        for t in s[1:]:
            if isinstance(t, tuple):
                out |= fv(t, bound)
        return out
    return set() if pred is None else fv(pred, frozenset())


def binding_verdict(p) -> Optional[str]:
    """None if the property satisfies (i)-(iii) of C02's statement, else the reason it must be rejected.
    Binding order: activator -> trigger -> behaviour (behaviour -> trigger for requirement); terminator sees the
    activator's aliases only; alternatives of one disjunction are parallel."""
    def ext_refs(ev):
        out = set()
        for e in simple_events(ev):
            refs = pred_free_vars(e[3])
            if e[2]:
                refs.discard(e[2])
            out |= refs
        return out

    def aliases(ev):
        return [e[2] for e in simple_events(ev) if e[2]]

    def dup_channel(ev):
        names = [e[1] for e in simple_events(ev)]
        return len(names) != len(set(names))

    for pos in ('activator', 'terminator', 'trigger', 'behaviour'):
        ev = p.get(pos)
        if ev is not None and dup_channel(ev):
            return f'channel repeated inside the {pos} disjunction'
    avail: List[str] = []
    act = p.get('activator') if has_activator(p) else None
    if act is not None:
        if ext_refs(act):
            return 'activator references an alias (nothing precedes it)'
        avail = aliases(act)
    initial = list(avail)
    order = ['behaviour'] if not has_trigger(p) else (['behaviour', 'trigger'] if p['pattern'] == 'requirement' else ['trigger', 'behaviour'])
    for pos in order:
        ev = p[pos]
        for r in ext_refs(ev):
            if r not in avail:
                return f'{pos} references @{r} which is not bound earlier'
        for a in aliases(ev):
            if a in avail:
                return f'{pos} binds alias {a} a second time'
        avail = aliases(ev) + avail
    if has_terminator(p):
        ev = p['terminator']
        for r in ext_refs(ev):
            if r not in initial:
                return f'terminator references @{r} which the activator does not bind'
        for a in aliases(ev):
            if a in initial:
                return f'terminator binds alias {a} a second time'
    return None


def expected_canonical(p) -> List[Dict[str, Any]]:
    """the decomposition the statement of C11 prescribes, as prop specs, activator-major in source order"""
    acts = simple_events(p['activator']) if has_activator(p) else [None]
    pos = SPLIT[p['pattern']]
    alts = simple_events(p[pos]) if pos else [None]
    if len(acts) == 1 and len(alts) == 1:
        return [p]
    out = []
    for a in acts:
        for b in alts:
            q = dict(p)
            if a is not None:
                q['activator'] = a
            if b is not None:
                q[pos] = b
            out.append(q)
    return out


def quantifier_problem(pred, enclosing=()) -> Optional[str]:
    """(iv) of C02: every quantifier uses its variable in its body, not in its own domain, and does not re-bind
    a variable of an enclosing quantifier. Written from the statement over pred specs."""
    def mentions(s, v) -> bool:
        if s[0] == 'var':
            return s[1] == v
        return any(mentions(t, v) for t in s[1:] if isinstance(t, tuple))

    def walk(s, enc):
        if s[0] == 'q':
            _, _q, v, dom, body = s
            for e in enc:
                if v == e:
                    return 'quantifier re-binds an enclosing variable'
            if mentions(dom, v):
                return 'quantified variable used in its own domain'
            if not mentions(body, v):
                return 'quantified variable never used'
            r = walk(dom, enc)
            if r:
                return r
            return walk(body, enc + (v,))
        for t in s[1:]:
            if isinstance(t, tuple):
                r = walk(t, enc)
                if r:
                    return r
        return None

    return None if pred is None else walk(pred, tuple(enclosing))


def property_verdict(p) -> Optional[str]:
    """C02 (i)-(iv): None = must be accepted, else the reason for a sanity error"""
    for pos in ('activator', 'terminator', 'trigger', 'behaviour'):
        for e in simple_events(p.get(pos)):
            r = quantifier_problem(e[3])
            if r:
                return f'{pos}: {r}'
    return binding_verdict(p)
