"""Fork-based parallel map over chunks (workers return plain data only; z3 objects never cross processes)."""
from __future__ import annotations

import multiprocessing as mp
import os
from typing import Any, Callable, Iterable, List, Sequence

from vf.common import ncores

_FUNC = None


def _run(chunk):
    return _FUNC(chunk)


def chunks(items: Sequence[Any], n: int) -> List[Sequence[Any]]:
    return [items[i:i + n] for i in range(0, len(items), n)]


def pmap_chunks(func: Callable[[Sequence[Any]], Any], items: Sequence[Any], chunksize: int = 200, procs: int = 0) -> List[Any]:
    """func(chunk) -> result; returns list of results in chunk order"""
    global _FUNC
    procs = procs or ncores()
    cs = chunks(items, chunksize)
    if procs <= 1 or len(cs) <= 1:
        return [func(c) for c in cs]
    _FUNC = func
    ctx = mp.get_context('fork')
    with ctx.Pool(min(procs, len(cs))) as pool:
        return pool.map(_run, cs, chunksize=1)
