"""Message schemas, type-directed term generation and the schema oracle (C04, C17).

A schema is a nested dict:  field -> 'bool' | 'num' | 'str' | ('arr', elem, length) | ('msg', {..}) ; constants: name -> (type, value)
The oracle resolves reference specs against a schema independently of hpl (written from the statement).
"""
from __future__ import annotations

import itertools
from typing import Any, Dict, Iterable, List, Optional, Tuple

from vf import symtypes as ST

INNER = {'x': 'num', 'y': 'num', 'p': 'bool', 's': 'str', 'zs': ('arr', 'num', -1)}
DEEP = {'x': 'num', 'in': ('msg', dict(INNER))}
SCHEMA_THIS = {
    'fields': {'x': 'num', 'y': 'num', 'i': 'num', 'p': 'bool', 'q': 'bool', 's': 'str', 't': 'str',
               'xs': ('arr', 'num', -1), 'fx': ('arr', 'num', 3), 'ps': ('arr', 'bool', -1), 'ss': ('arr', 'str', 2),
               'm': ('msg', dict(INNER)), 'd': ('msg', DEEP), 'ms': ('arr', ('msg', dict(INNER)), -1), 'fm': ('arr', ('msg', dict(INNER)), 2),
               'xss': ('arr', ('arr', 'num', 2), 2)},
    'constants': {'K': ('num', 5), 'FLAG': ('bool', True), 'NAME': ('str', 'abc')},
}
SCHEMA_ALIAS = {
    'fields': {'x': 'num', 'p': 'bool', 's': 'str', 'xs': ('arr', 'num', 4), 'm': ('msg', dict(INNER)), 'w': 'num'},
    'constants': {'MAXV': ('num', 10)},
}

BASE = {'bool': ST.BOOL, 'num': ST.NUMBER, 'str': ST.STRING}


def token(t, name='t', keywrap=None):
    """schema type -> real hpl.types token (keywrap: optional function applied to dict keys, e.g. to make them symbolic-name constants)"""
    from hpl.types import ArrayType, DataType, MessageType, TypeToken, RangedType, EnumeratedType
    kw = keywrap or (lambda k: k)
    if t == 'bool':
        return EnumeratedType.booleans()
    if t == 'num':
        return RangedType.float64()
    if t == 'str':
        return TypeToken('string', DataType.STRING)
    if t[0] == 'arr':
        return ArrayType(f'{name}[]', token(t[1], name, keywrap), t[2])
    if t[0] == 'msg':
        return MessageType(name, fields={kw(k): token(v, k, keywrap) for k, v in t[1].items()})
    raise ValueError(t)


def message_token(schema, name='Msg', keywrap=None):
    from hpl.types import MessageType
    kw = keywrap or (lambda k: k)
    fields = {kw(k): token(v, k, keywrap) for k, v in schema['fields'].items()}
    consts = {kw(k): (token(v[0], k, keywrap), v[1]) for k, v in schema.get('constants', {}).items()}
    return MessageType(name, fields=fields, constants=consts)


def type_mask(t) -> int:
    if isinstance(t, str):
        return BASE[t]
    return ST.ARRAY if t[0] == 'arr' else ST.MESSAGE


# ---------------------------------------------------------------------------------------------------------------
# oracle: resolve a reference spec against the schemas
# ---------------------------------------------------------------------------------------------------------------

class Fault(Exception):
    def __init__(self, kind, at):
        super().__init__(f'{kind} at {at}')
        self.kind = kind
        self.at = at


def resolve(ref, this_schema, alias_schemas: Dict[str, Any], qvars=()):
    """schema type of a reference spec ('f',n) | ('var',A) | ('fa',obj,n) | ('idx',obj,index); raises Fault"""
    k = ref[0]
    if k == 'f':
        return lookup(('msg', this_schema['fields']), ref[1], this_schema.get('constants', {}), ref)
    if k == 'var':
        if ref[1] in qvars:
            raise Fault('quantified-variable', ref)
        if ref[1] not in alias_schemas:
            raise Fault('unknown-alias', ref)
        sc = alias_schemas[ref[1]]
        return ('msgroot', sc)
    if k == 'fa':
        obj = resolve(ref[1], this_schema, alias_schemas, qvars)
        if obj[0] == 'msgroot':
            return lookup(('msg', obj[1]['fields']), ref[2], obj[1].get('constants', {}), ref)
        if isinstance(obj, str) or obj[0] != 'msg':
            raise Fault('field-of-non-message', ref)
        return lookup(obj, ref[2], {}, ref)
    if k == 'idx':
        obj = resolve(ref[1], this_schema, alias_schemas, qvars)
        if isinstance(obj, str) or obj[0] != 'arr':
            raise Fault('index-of-non-array', ref)
        ix = ref[2]
        if ix[0] == 'lit' and not isinstance(ix[1], bool):
            v = ix[1]
            if obj[2] >= 0 and not (0 <= v < obj[2]):
                raise Fault('index-out-of-range', ref)
            if obj[2] < 0 and v < 0:
                raise Fault('index-out-of-range', ref)
        return obj[1]
    raise ValueError(ref)


def lookup(msg, name, constants, at):
    if name in msg[1]:
        return msg[1][name]
    if name in constants:
        return constants[name][0]
    raise Fault('unknown-field', at)


def references(spec, qvars=()) -> List[Tuple[Any, Tuple[str, ...]]]:
    """every maximal-or-inner reference chain occurring in an expression spec, with the quantified variables in scope
    (inner chains are included: each accessor node is checked by the library against its own inferred type)"""
    out = []

    def walk(s, qv):
        k = s[0]
        if k in ('f', 'fa', 'idx'):
            out.append((s, qv))
            if k == 'fa':
                walk(s[1], qv)
            if k == 'idx':
                walk(s[1], qv)
                walk(s[2], qv)
            return
        if k == 'q':
            walk(s[3], qv)
            walk(s[4], qv + (s[2],))
            return
        for t in s[1:]:
            if isinstance(t, tuple):
                walk(t, qv)

    walk(spec, tuple(qvars))
    return out


def root_of(ref):
    while ref[0] in ('fa', 'idx'):
        ref = ref[1]
    return ref


# ---------------------------------------------------------------------------------------------------------------
# type-directed generation of well-typed terms over (this: SCHEMA_THIS, @A: SCHEMA_ALIAS)
# ---------------------------------------------------------------------------------------------------------------

def L(v):
    return ('lit', v)


def typed_terms(tier: str) -> Dict[str, List[Any]]:
    A = ('var', 'A')
    num0 = [('f', 'x'), ('f', 'y'), ('f', 'K'), ('fa', ('f', 'm'), 'x'), ('fa', ('fa', ('f', 'd'), 'in'), 'y'), ('idx', ('f', 'xs'), L(0)), ('idx', ('f', 'fx'), L(2)),
            ('idx', ('f', 'xs'), ('f', 'i')), ('fa', ('idx', ('f', 'ms'), L(1)), 'x'), ('fa', ('idx', ('f', 'fm'), L(1)), 'y'), ('idx', ('fa', ('f', 'm'), 'zs'), L(3)),
            ('idx', ('idx', ('f', 'xss'), L(1)), L(0)), ('fa', A, 'x'), ('fa', A, 'MAXV'), ('idx', ('fa', A, 'xs'), L(3)), ('fa', ('fa', A, 'm'), 'y'),
            ('idx', ('f', 'xs'), ('fa', A, 'w')), L(1), L(2.5), L(0),
            # an index that carries references in the MIDDLE of a path (not the last accessor)
            ('fa', ('idx', ('f', 'ms'), ('f', 'i')), 'x'), ('idx', ('idx', ('f', 'xss'), ('f', 'i')), L(1)), ('fa', ('idx', ('f', 'fm'), ('bin', '-', ('f', 'i'), ('fa', A, 'w'))), 'y'),
            ('idx', ('fa', ('idx', ('f', 'ms'), ('idx', ('f', 'xs'), L(0))), 'zs'), ('f', 'i')),
            # a path rooted at the OTHER message whose index refers to the current message (the two schemas differ on i, y, w)
            ('idx', ('fa', A, 'xs'), ('f', 'i')), ('idx', ('fa', ('fa', A, 'm'), 'zs'), ('bin', '+', ('f', 'i'), ('f', 'y')))]
    bool0 = [('f', 'p'), ('f', 'q'), ('f', 'FLAG'), ('fa', ('f', 'm'), 'p'), ('idx', ('f', 'ps'), L(0)), ('fa', A, 'p'), ('fa', ('idx', ('f', 'ms'), L(0)), 'p'), L(True)]
    str0 = [('f', 's'), ('f', 't'), ('f', 'NAME'), ('fa', ('f', 'm'), 's'), ('idx', ('f', 'ss'), L(1)), ('fa', A, 's'), ('str', 'a')]
    narr = [('f', 'xs'), ('f', 'fx'), ('fa', ('f', 'm'), 'zs'), ('fa', A, 'xs'), ('idx', ('f', 'xss'), L(0))]
    sarr = [('f', 'ss')]
    barr = [('f', 'ps')]
    V = ('var', 'v')
    num1 = []
    for op in ('+', '-', '*', '/', '**'):
        num1 += [('bin', op, a, b) for a in num0[::3] for b in num0[1::4]]
    num1 += [('neg', a) for a in num0[::4]]
    for f in ('abs', 'sqrt', 'ceil', 'floor', 'sin', 'int', 'float', 'deg'):
        num1 += [('call', f, a) for a in num0[::5]]
    num1 += [('call', 'int', b) for b in bool0[:2]] + [('call', 'float', s) for s in str0[:2]]
    for f in ('len', 'sum', 'prod', 'max', 'min', 'gcd'):
        num1 += [('call', f, c) for c in narr] + [('call', f, ('set', num0[0], num0[3])), ('call', f, ('range', L(0), num0[5], False, True))]
    num1 += [('call', 'len', c) for c in sarr + barr]
    num1 += [('call', f, a, b) for f in ('max', 'min', 'gcd', 'log', 'atan2') for a in num0[:2] for b in num0[2:4]]
    num1 += [('call', 'max', num0[0], num0[3], num0[12])]
    num1 += [('call', f, ('f', 'm')) for f in ('roll', 'pitch', 'yaw')] + [('call', 'yaw', num0[0], num0[1], L(0), L(1)), ('call', 'roll', ('fa', A, 'm'))]
    nums = num0 + num1
    bool1 = []
    for op in ('=', '!=', '<', '<=', '>', '>='):
        bool1 += [('bin', op, a, b) for a in nums[::7] for b in num0[1::5]]
    bool1 += [('bin', op, a, b) for op in ('=', '!=') for a in str0 for b in str0[::3]]
    bool1 += [('bin', op, a, b) for op in ('=', '!=') for a in bool0[:4] for b in bool0[1:3]]
    bool1 += [('bin', 'in', a, c) for a in num0[::4] for c in narr + [('set', L(1), num0[3]), ('range', num0[0], L(9), True, False)]]
    bool1 += [('bin', 'in', a, c) for a in str0[::2] for c in sarr + [('set', ('str', 'a'), str0[0])]]
    bool1 += [('bin', 'in', bool0[0], ('f', 'ps'))]
    bool1 += [('not', b) for b in bool0]
    bool1 += [('call', 'bool', a) for a in (num0[0], str0[0], bool0[0])]
    for q in ('forall', 'exists'):
        for d in narr + [('set', L(1), num0[0]), ('range', L(0), num0[6], False, False)]:
            bool1 += [('q', q, 'v', d, ('bin', '<', V, num0[3])), ('q', q, 'v', d, ('bin', '=', ('idx', ('f', 'xs'), V), ('fa', A, 'x')))]
        bool1 += [('q', q, 'v', ('f', 'ss'), ('bin', '=', V, str0[0])), ('q', q, 'v', ('f', 'ps'), ('bin', 'or', V, bool0[0])),
                  ('q', q, 'v', ('set', ('str', 'a'), str0[1]), ('bin', '!=', V, str0[3]))]
    bools = bool0 + bool1
    bool2 = []
    sel = bool1[:: (5 if tier == 'quick' else 2)]
    for op in ('and', 'or', 'implies', 'iff'):
        bool2 += [('bin', op, a, b) for a in sel for b in bools[::9]]
    bool2 += [('not', a) for a in sel]
    # sibling quantifiers that reuse one variable name over domains of different element types; at most one of the two variables is
    # typed explicitly by its context (the other only through its domain), so no recorded defect class applies
    q_num = [('q', 'forall', 'v', ('range', L(0), L(3), False, False), ('bin', '<', ('idx', ('f', 'fx'), V), L(87.5))),
             ('q', 'exists', 'v', ('f', 'xs'), ('bin', '>', V, L(0))), ('q', 'forall', 'v', ('set', L(1), L(2)), ('bin', '<', ('bin', '+', V, L(1)), ('f', 'y')))]
    q_loose = [('q', 'exists', 'v', ('set', ('str', 'idle'), ('str', 'hold')), ('bin', '=', ('f', 's'), V)), ('q', 'forall', 'v', ('f', 'ss'), ('bin', '!=', V, ('f', 't'))),
               ('q', 'exists', 'v', ('f', 'ps'), ('bin', '=', V, ('f', 'q'))), ('q', 'forall', 'v', ('set', ('str', 'a')), ('bin', 'in', V, ('f', 'ss'))),
               ('q', 'exists', 'v', ('set', L(True), L(False)), ('bin', '=', ('f', 'p'), V))]
    sib = []
    for a in q_num + q_loose[:2]:
        for b in q_loose:
            if a is b:
                continue
            sib += [('bin', 'and', a, b), ('bin', 'or', b, a), ('bin', 'and', ('bin', 'and', a, ('f', 'p')), ('not', b))]
    # legal but unusual spellings of number literals
    spell = []
    for t in ('1E5', '25E-1', '1e+5', '1E+5', '5.', '.5', '007', '0.50', '1e0', '12345678901234567890'):
        k = ('tok', t)
        spell += [('bin', '<', k, ('f', 'y')), ('bin', '=', ('f', 'x'), k), ('bin', 'in', ('f', 'x'), ('range', k, L(9), False, True)), ('bin', '>', ('idx', ('f', 'xs'), L(0)), ('bin', '*', k, ('fa', A, 'x'))),
                  ('bin', 'in', ('f', 'y'), ('set', k, L(1)))]
    return {'numbers': [('bin', '<', n, ('f', 'y')) for n in nums], 'booleans-depth1': bools, 'booleans-depth2': bool2, 'sibling-quantifiers': sib, 'number-spellings': spell}


# ---------------------------------------------------------------------------------------------------------------
# single-fault injection into references (C17)
# ---------------------------------------------------------------------------------------------------------------

def fault_variants(ref) -> List[Tuple[str, Any]]:
    """references that differ from a valid ref in exactly one way"""
    out = []
    k = ref[0]
    if k == 'f':
        out.append(('unknown-field', ('f', ref[1] + 'zz')))
    if k == 'fa':
        out.append(('unknown-field', ('fa', ref[1], ref[2] + 'zz')))
    if k == 'idx':
        out.append(('index-past-end', ('idx', ref[1], L(99))))
    # a field that exists only in the OTHER message's schema (own root <-> alias root)
    if k == 'f':
        out += [('field-of-the-other-message', ('f', 'w')), ('field-of-the-other-message', ('f', 'MAXV'))]
    if k == 'fa' and ref[1] == ('var', 'A'):
        out += [('field-of-the-other-message', ('fa', ref[1], 'y')), ('field-of-the-other-message', ('fa', ref[1], 'i'))]
    # field/array confusion
    out.append(('field-of-it', ('fa', ref, 'x')))
    out.append(('index-of-it', ('idx', ref, L(0))))
    return out


def rename_quantifiers_apart(spec, counter=None):
    """give every quantifier its own variable name (v_1, v_2, ...): same meaning, no name shared between quantifiers"""
    counter = counter if counter is not None else [0]

    def sub(s, old, new):
        if s[0] == 'var' and s[1] == old:
            return ('var', new)
        if s[0] == 'q' and s[2] == old:
            return s  # shadowed (not produced by the generators)
        return tuple(sub(t, old, new) if isinstance(t, tuple) else t for t in s)

    def walk(s):
        if not isinstance(s, tuple):
            return s
        if s[0] == 'q':
            counter[0] += 1
            new = f'v_{counter[0]}'
            dom = walk(s[3])
            body = walk(sub(s[4], s[2], new))
            return ('q', s[1], new, dom, body)
        return tuple(walk(t) if isinstance(t, tuple) else t for t in s)

    return walk(spec)


def explicit_context_masks(spec) -> List[Tuple[str, int]]:
    """for every quantifier of the spec: (variable name, intersection of the types that the CONTEXTS of its occurrences state
    explicitly) — operator/function parameter types, literal partners of =/!=, literal set/range partners of `in`. Occurrences next to
    a plain reference, inside a set literal etc. state nothing (all types). Written from the language definition, independent of hpl."""
    out: List[Tuple[str, int]] = []

    def lit_mask(s):
        if s[0] == 'lit':
            return ST.BOOL if (s[1] is True or s[1] is False) else ST.NUMBER
        if s[0] in ('str', 'apistr'):
            return ST.STRING
        if s[0] in ('tok', 'const', 'neg'):
            return ST.NUMBER
        return None

    def occ(s, v, ctx, acc):
        """walk s; ctx = mask that the parent states for s"""
        if not isinstance(s, tuple):
            return
        k = s[0]
        if k == 'var':
            if s[1] == v:
                acc[0] &= ctx
            return
        if k == 'q':
            occ(s[3], v, ST.ANY, acc)
            if s[2] != v:
                occ(s[4], v, ST.BOOL, acc)
            return
        if k == 'not':
            occ(s[1], v, ST.BOOL, acc)
        elif k == 'neg':
            occ(s[1], v, ST.NUMBER, acc)
        elif k == 'bin':
            op, a, b = s[1], s[2], s[3]
            if op in ('=', '!='):
                ma, mb = lit_mask(a), lit_mask(b)
                occ(a, v, mb if mb is not None else ST.ANY, acc)
                occ(b, v, ma if ma is not None else ST.ANY, acc)
            elif op == 'in':
                m = ST.ANY
                if b[0] == 'range':
                    m = ST.NUMBER
                elif b[0] == 'set':
                    ms = [lit_mask(x) for x in b[1:]]
                    if ms and all(x is not None for x in ms):
                        m = 0
                        for x in ms:
                            m |= x
                occ(a, v, m, acc)
                occ(b, v, ST.ANY, acc)
            else:
                p1, p2, _r = ST.BINARY[op]
                occ(a, v, p1, acc)
                occ(b, v, p2, acc)
        elif k == 'call':
            for a in s[2:]:
                occ(a, v, ST.NUMBER if s[1] not in ('len', 'sum', 'prod', 'str', 'bool', 'int', 'float', 'max', 'min', 'gcd') else ST.ANY, acc)
        elif k == 'idx':
            occ(s[1], v, ST.ARRAY, acc)
            occ(s[2], v, ST.NUMBER, acc)
        elif k == 'fa':
            occ(s[1], v, ST.MESSAGE, acc)
        elif k == 'range':
            occ(s[1], v, ST.NUMBER, acc)
            occ(s[2], v, ST.NUMBER, acc)
        else:
            for t in s[1:]:
                occ(t, v, ST.ANY, acc)

    def walk(s):
        if not isinstance(s, tuple):
            return
        if s[0] == 'q':
            acc = [ST.ANY]
            occ(s[4], s[2], ST.BOOL, acc)
            out.append((s[2], acc[0]))
        for t in s[1:]:
            walk(t)

    walk(spec)
    return out


def same_name_explicit_clash(spec) -> bool:
    """two quantifiers bind one name and the explicitly stated context types of their variables are disjoint"""
    ms = explicit_context_masks(spec)
    return any(a[0] == b[0] and not (a[1] & b[1]) for i, a in enumerate(ms) for b in ms[i + 1:])


# own-message field names shaped like keywords / constants / units followed by more name characters (all legal names)
KEYWORDISH = {'x': 'INFO', 'y': 'PIN_gain', 'i': 'iffy', 'p': 'notify', 'q': 'Ex', 's': 'NANOS', 't': 'inside', 'xs': 'android', 'fx': 'orbit', 'ps': 'total',
              'ss': 'somewhere', 'm': 'msg', 'd': 'E_stop', 'ms': 'asB', 'fm': 'forallx', 'xss': 'existsy', 'K': 'PIx', 'FLAG': 'Truely', 'NAME': 'nothing'}


def keywordish_twin(spec):
    """same predicate with every own-message root field renamed (fields after a dot keep their names)"""
    def walk(s):
        if not isinstance(s, tuple):
            return s
        if s[0] == 'f':
            return ('f', KEYWORDISH.get(s[1], s[1]))
        if s[0] == 'fa':
            return ('fa', walk(s[1]), s[2])
        return tuple(walk(t) if isinstance(t, tuple) else t for t in s)
    return walk(spec)


def rotate_types(schema):
    """the same field tree with every primitive leaf type rotated (num -> str -> bool -> num): a second valid schema for history checks"""
    rot = {'num': 'str', 'str': 'bool', 'bool': 'num'}

    def r(t):
        if isinstance(t, str):
            return rot[t]
        if t[0] == 'arr':
            return ('arr', r(t[1]), t[2])
        if t[0] == 'msg':
            return ('msg', {k: r(v) for k, v in t[1].items()})
        raise ValueError(t)
    vals = {'num': 1, 'str': 'a', 'bool': True}
    return {'fields': {k: r(v) for k, v in schema['fields'].items()}, 'constants': {k: (rot[v[0]], vals[rot[v[0]]]) for k, v in schema['constants'].items()}}
