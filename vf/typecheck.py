"""Independent well-typedness walker for C03 (written from the statement; signature table from vf.symtypes)."""
from __future__ import annotations

from typing import Any, Dict, List, Optional

from vf import sem, symtypes as ST


def mask(e) -> int:
    return e.data_type.value


def kind_allows(e) -> int:
    k = sem.kind(e)
    if k == 'HplLiteral':
        v = e.value
        if v is True or v is False:
            return ST.BOOL
        if isinstance(v, str):
            return ST.STRING
        return ST.NUMBER
    return {'HplSet': ST.SET, 'HplRange': ST.RANGE, 'HplThisMessage': ST.MESSAGE, 'HplVarReference': ST.ITEM, 'HplFieldAccess': ST.ACCESS_DEFAULT,
            'HplArrayAccess': ST.ACCESS_DEFAULT, 'HplQuantifier': ST.BOOL}.get(k, ST.ANY)


def violations(e, root_is_predicate: bool = False, check_call_args: bool = True) -> List[str]:
    """list of invariant violations of the tree rooted at e (empty = well-typed per the statement of C03)"""
    out: List[str] = []
    refs: Dict[str, int] = {}

    def need(cond, msg):
        if not cond:
            out.append(msg)

    def inside(child, param, what):
        m = mask(child)
        need(m != 0, f'{what}: empty type set on «{child}»')
        need(m & ~param == 0, f'{what}: «{child}» has type set {child.data_type!r} outside the parameter type')

    def walk(n, qvars: Dict[str, int]):
        k = sem.kind(n)
        m = mask(n)
        need(m != 0, f'empty type set on «{n}»')
        need(m & ~kind_allows(n) == 0, f'«{n}» ({k}) carries {n.data_type!r}, outside what its kind allows')
        if k == 'HplLiteral':
            need(m == kind_allows(n), f'literal «{n}» carries {n.data_type!r}')
        elif k == 'HplSet':
            need(m == ST.SET, f'set carries {n.data_type!r}')
            for v in n.values:
                inside(v, ST.PRIMITIVE, 'set element')
        elif k == 'HplRange':
            need(m == ST.RANGE, f'range carries {n.data_type!r}')
            inside(n.min_value, ST.NUMBER, 'range bound')
            inside(n.max_value, ST.NUMBER, 'range bound')
        elif k == 'HplUnaryOperator':
            p, r = ST.UNARY[n.operator.token]
            need(m == r, f'«{n}» carries {n.data_type!r}, declared result differs')
            inside(n.operand, p, f'operand of {n.operator.token}')
        elif k == 'HplBinaryOperator':
            p1, p2, r = ST.BINARY[n.operator.token]
            need(m == r, f'«{n}» carries {n.data_type!r}, declared result differs')
            inside(n.operand1, p1, f'left operand of {n.operator.token}')
            inside(n.operand2, p2, f'right operand of {n.operator.token}')
            if n.operator.token in ('=', '!='):
                need(mask(n.operand1) == mask(n.operand2), f'«{n}»: the two sides carry different type sets {n.operand1.data_type!r} / {n.operand2.data_type!r}')
        elif k == 'HplQuantifier':
            need(m == ST.BOOL, f'quantifier carries {n.data_type!r}')
            inside(n.domain, ST.COMPOUND, 'quantifier domain')
            need(mask(n.condition) == ST.BOOL, f'quantifier body «{n.condition}» carries {n.condition.data_type!r}')
            dk = sem.kind(n.domain)
            if dk == 'HplSet':
                elem = 0
                for v in n.domain.values:
                    elem |= mask(v)
            elif dk == 'HplRange':
                elem = ST.NUMBER
            else:
                elem = ST.PRIMITIVE
            qvars = dict(qvars)
            qvars[n.variable] = elem
        elif k == 'HplFunctionCall':
            overloads = ST.FUNCTIONS.get(n.function.name)
            need(overloads is not None, f'unknown function {n.function.name}')
            if overloads:
                need(m == overloads[0][2], f'«{n}» carries {n.data_type!r}, declared result differs')
                args = list(n.arguments)
                ok_any = False
                inside_any = False
                for ps, var, r in overloads:
                    if len(ps) > len(args) or (len(ps) < len(args) and var is None):
                        continue
                    params = list(ps) + [var] * (len(args) - len(ps))
                    if all(mask(a) & p for a, p in zip(args, params)):
                        ok_any = True
                    if all(mask(a) & ~p == 0 for a, p in zip(args, params)):
                        inside_any = True
                need(ok_any, f'«{n}»: no overload accepts the arguments')
                if check_call_args:
                    need(inside_any, f'«{n}»: an argument carries a type set outside the parameter type ({[str(a.data_type) for a in args]})')
        elif k == 'HplFieldAccess':
            inside(n.message, ST.MESSAGE, 'accessed object')
        elif k == 'HplArrayAccess':
            inside(n.array, ST.ARRAY, 'indexed object')
            inside(n.index, ST.NUMBER, 'index')
        if k == 'HplVarReference':
            name = n.token[1:]
            if name in qvars:
                # "used only at the element type of its domain": the occurrence must be usable at that type (the code checks
                # compatibility and does not narrow the occurrence; the weaker reading is the one claimed)
                need(m & qvars[name] != 0, f'bound variable «{n}» carries {n.data_type!r}, incompatible with the element type of its domain')
        if k in ('HplVarReference', 'HplFieldAccess', 'HplArrayAccess'):
            key = str(n)
            refs[key] = (refs[key] & m) if key in refs else m
        for c in sem._kids(n):
            walk(c, qvars)

    walk(e, {})
    if root_is_predicate:
        need(mask(e) == ST.BOOL, f'predicate root «{e}» carries {e.data_type!r}')
    if root_is_predicate:  # the statement requires this of a predicate, not of a free-standing expression
        for key, m in refs.items():
            need(m != 0, f'occurrences of reference «{key}» share no possible type')
    return out
