"""IEEE reading of the comparison skeleton of a Boolean HPL expression.

The EQ engine evaluates over finite numbers (non-finite values are outside its value domain). HPL numbers are ROS floats,
so a field may hold NaN or an infinity; the language has the constants NAN and INF. For Boolean COMBINATORS (negate, join) —
which must not look inside the operands of a comparison — the finite reading is extended here:

  * every maximal non-Boolean operand of a comparison becomes a z3 Float64 variable (same printed term = same variable),
    finite literals become Float64 constants, `len(...)` and integer literals are constrained to be ordinary numbers;
  * every other Boolean leaf (Boolean field, quantifier, Boolean function call) becomes a z3 Bool variable;
  * connectives are classical, comparisons are IEEE-754 (`fpLT`, `fpLEQ`, `fpGT`, `fpGEQ`, `fpEQ`; `!=` is `not fpEQ`).

z3 then decides whether two skeletons can differ; a model is replayed through `py_skeleton` (Python float comparisons),
which shares no code with the z3 translation.

The abstraction is exact for functions that leave comparison operands alone; `comparable()` checks that precondition
(every operand term of the outputs already occurs in the inputs) and the caller skips the query otherwise.
"""
from __future__ import annotations

import math
import time
from typing import Any, Dict, List, Optional, Tuple

import z3

from vf.sem import kind

CONNECTIVES = ('and', 'or', 'implies', 'iff')
COMPARISONS = ('<', '<=', '>', '>=', '=', '!=')
F64 = z3.Float64()
RNE = z3.RNE()


def _tok(e) -> str:
    return e.operator.token


class Skeleton:
    def __init__(self):
        self.num: Dict[str, Any] = {}      # printed operand -> Float64 variable
        self.boo: Dict[str, Any] = {}      # printed Boolean leaf -> Bool variable
        self.cons: List[Any] = []
        self.operands: Dict[str, Any] = {}

    # -- z3 ---------------------------------------------------------------
    def operand(self, e):
        k = kind(e)
        if k == 'HplLiteral' and isinstance(e.value, (int, float)) and not isinstance(e.value, bool):
            v = e.value
            if isinstance(v, float):
                if math.isnan(v):
                    return z3.fpNaN(F64)
                if math.isinf(v):
                    return z3.fpPlusInfinity(F64) if v > 0 else z3.fpMinusInfinity(F64)
                return z3.FPVal(v, F64)
            if abs(v) <= 2 ** 53:
                return z3.FPVal(float(v), F64)
        key = str(e)
        self.operands[key] = e
        if key not in self.num:
            x = z3.FP(f'n!{len(self.num)}', F64)
            self.num[key] = x
            if k == 'HplLiteral' or (k == 'HplFunctionCall' and e.function.name == 'len'):
                self.cons.append(z3.Not(z3.fpIsNaN(x)))
                self.cons.append(z3.Not(z3.fpIsInf(x)))
        return self.num[key]

    def leaf(self, e):
        key = str(e)
        if key not in self.boo:
            self.boo[key] = z3.Bool(f'b!{len(self.boo)}')
        return self.boo[key]

    def z3_of(self, e):
        k = kind(e)
        if k == 'HplLiteral' and (e.value is True or e.value is False):
            return z3.BoolVal(e.value)
        if k == 'HplUnaryOperator' and _tok(e) == 'not':
            return z3.Not(self.z3_of(e.operand))
        if k == 'HplBinaryOperator':
            t = _tok(e)
            if t in CONNECTIVES:
                a, b = self.z3_of(e.operand1), self.z3_of(e.operand2)
                return {'and': z3.And(a, b), 'or': z3.Or(a, b), 'implies': z3.Implies(a, b), 'iff': a == b}[t]
            if t in COMPARISONS:
                if t in ('=', '!=') and (_is_boolean(e.operand1) or _is_boolean(e.operand2)):
                    a, b = self.z3_of(e.operand1), self.z3_of(e.operand2)
                    return (a == b) if t == '=' else (a != b)
                a, b = self.operand(e.operand1), self.operand(e.operand2)
                return {'<': z3.fpLT, '<=': z3.fpLEQ, '>': z3.fpGT, '>=': z3.fpGEQ, '=': z3.fpEQ, '!=': lambda p, q: z3.Not(z3.fpEQ(p, q))}[t](a, b)
        return self.leaf(e)


def _is_boolean(e) -> bool:
    k = kind(e)
    if k == 'HplLiteral':
        return e.value is True or e.value is False
    if k == 'HplUnaryOperator':
        return _tok(e) == 'not'
    if k == 'HplBinaryOperator':
        return _tok(e) in CONNECTIVES or _tok(e) in COMPARISONS
    return kind(e) == 'HplQuantifier'


# -- independent Python evaluation of the same skeleton ---------------------------------

def py_skeleton(e, nums: Dict[str, float], bools: Dict[str, bool]) -> bool:
    k = kind(e)
    if k == 'HplLiteral' and (e.value is True or e.value is False):
        return e.value
    if k == 'HplUnaryOperator' and _tok(e) == 'not':
        return not py_skeleton(e.operand, nums, bools)
    if k == 'HplBinaryOperator':
        t = _tok(e)
        if t in CONNECTIVES:
            a, b = py_skeleton(e.operand1, nums, bools), py_skeleton(e.operand2, nums, bools)
            return (a and b) if t == 'and' else (a or b) if t == 'or' else ((not a) or b) if t == 'implies' else (a is b)
        if t in COMPARISONS:
            if t in ('=', '!=') and (_is_boolean(e.operand1) or _is_boolean(e.operand2)):
                a, b = py_skeleton(e.operand1, nums, bools), py_skeleton(e.operand2, nums, bools)
                return (a is b) if t == '=' else (a is not b)
            a, b = _py_operand(e.operand1, nums), _py_operand(e.operand2, nums)
            return (a < b) if t == '<' else (a <= b) if t == '<=' else (a > b) if t == '>' else (a >= b) if t == '>=' else (a == b) if t == '=' else (a != b)
    return bools[str(e)]


def _py_operand(e, nums) -> float:
    if kind(e) == 'HplLiteral' and isinstance(e.value, (int, float)) and not isinstance(e.value, bool):
        if isinstance(e.value, float) or abs(e.value) <= 2 ** 53:
            return float(e.value)
    return nums[str(e)]


def _fp_to_float(m, x) -> float:
    import struct
    bits = m.eval(z3.fpToIEEEBV(x), model_completion=True)
    v = m.eval(x, model_completion=True)
    if z3.is_fp_value(v) and v.isNaN():
        return math.nan
    return struct.unpack('>d', bits.as_long().to_bytes(8, 'big'))[0]


def differ(want_builder, ins: List[Any], out, timeout_ms: int = 10000) -> Tuple[str, Optional[dict], float]:
    """want_builder(list of z3 Bools for `ins`) is the expected Boolean value of `out`.
    Returns ('unsat'|'sat'|'norepro'|'unknown'|'skip', info, seconds)."""
    sk = Skeleton()
    zin = [sk.z3_of(e) for e in ins]
    in_terms = set(sk.num) | set(sk.boo)
    zout = sk.z3_of(out)
    if not (set(sk.num) | set(sk.boo)) <= in_terms:
        return 'skip', None, 0.0      # the function touched an operand: the skeleton abstraction does not apply
    s = z3.Solver()
    s.set('timeout', timeout_ms)
    for c in sk.cons:
        s.add(c)
    s.add(want_builder(zin) != zout)
    t0 = time.time()
    r = s.check()
    dt = time.time() - t0
    if r == z3.unsat:
        return 'unsat', None, dt
    if r != z3.sat:
        return 'unknown', None, dt
    m = s.model()
    nums = {k: _fp_to_float(m, x) for k, x in sk.num.items()}
    bools = {k: bool(z3.is_true(m.eval(x, model_completion=True))) for k, x in sk.boo.items()}
    info = {'numbers': {k: repr(v) for k, v in nums.items()}, 'booleans': bools}
    return 'sat', {'nums': nums, 'bools': bools, 'shown': info}, dt
