"""SX engine: CrossHair symbolic execution of harness functions over the real hpl code.

A harness module defines functions with PEP316 contracts (`pre:` / `post: _`). Each function is checked by its
own `crosshair check` process (one condition each, many in parallel). Verdicts:
  confirmed      — "Confirmed over all paths": every input satisfying `pre` makes the function return True
  counterexample — concrete arguments, which the caller replays in plain Python before reporting
  unknown        — "Not confirmed", "Unable to meet precondition", timeout, crash: inconclusive
"""
from __future__ import annotations

import ast
import os
import re
import subprocess
import sys
import time
from concurrent.futures import ThreadPoolExecutor
from pathlib import Path
from typing import Any, Dict, List, Optional, Sequence, Tuple

from vf.common import ROOT, ncores

WORK = ROOT / '.sxwork'


class SxResult:
    def __init__(self, name):
        self.name = name
        self.status = 'unknown'
        self.message = ''
        self.args: Optional[Tuple[list, dict]] = None
        self.secs = 0.0
        self.exc = None


def _func_lines(path: Path) -> Dict[str, int]:
    tree = ast.parse(path.read_text())
    out = {}
    for node in tree.body:
        if isinstance(node, ast.FunctionDef):
            doc = ast.get_docstring(node)
            if doc and 'post:' in doc:
                out[node.name] = node.lineno
    return out


_CALL = re.compile(r'when calling (.*?)(?: \(which returns .*\))?$')


def parse_call(text: str) -> Tuple[str, list, dict]:
    """'h1(7, -3, x=5)' -> ('h1', [7,-3], {'x':5}) using literal_eval on each argument"""
    node = ast.parse(text.strip(), mode='eval').body
    if not isinstance(node, ast.Call):
        raise ValueError(text)
    name = node.func.id if isinstance(node.func, ast.Name) else ast.unparse(node.func)
    args = [ast.literal_eval(a) for a in node.args]
    kwargs = {k.arg: ast.literal_eval(k.value) for k in node.keywords}
    return name, args, kwargs


def _check_batch(path: Path, batch: List[Tuple[str, int]], all_lines: Dict[str, int], cond_timeout: float,
                 path_timeout: Optional[float], env) -> Dict[str, SxResult]:
    """one crosshair process for several harness functions (amortises interpreter/import start-up)"""
    results = {n: SxResult(n) for n, _ in batch}
    cmd = [sys.executable, '-m', 'crosshair', 'check', '--report_all', '--analysis_kind', 'PEP316',
           '--per_condition_timeout', str(cond_timeout)]
    if path_timeout:
        cmd += ['--per_path_timeout', str(path_timeout)]
    cmd += [f'{path}:{line}' for _, line in batch]
    starts = sorted((l, n) for n, l in all_lines.items())

    def owner(line: int) -> Optional[str]:
        best = None
        for l, n in starts:
            if l <= line:
                best = n
            else:
                break
        return best

    t0 = time.time()
    try:
        p = subprocess.run(cmd, capture_output=True, text=True, env=env, timeout=(cond_timeout * 1.5 + 20) * len(batch) + 60, cwd=str(ROOT))
        out = (p.stdout or '') + (p.stderr or '')
    except subprocess.TimeoutExpired:
        for r in results.values():
            r.message = 'wall-clock timeout'
        return results
    secs = time.time() - t0
    for r in results.values():
        r.secs = secs / len(batch)
    pat = re.compile(r'^' + re.escape(str(path)) + r':(\d+): (info|error): (.*)$')
    other = []
    for l in out.splitlines():
        m = pat.match(l.strip())
        if not m:
            if l.strip() and 'WARNING' not in l:
                other.append(l.strip())
            continue
        name = owner(int(m.group(1)))
        if name not in results:
            continue
        res = results[name]
        kind, msg = m.group(2), m.group(3)
        if res.status == 'counterexample':
            continue
        if kind == 'info' and 'Confirmed over all paths' in msg:
            res.status = 'confirmed'
            res.message = msg
        elif kind == 'error':
            res.status = 'counterexample'
            res.message = msg[:800]
            cm = _CALL.search(msg)
            if cm:
                try:
                    _, a, k = parse_call(cm.group(1))
                    res.args = (a, k)
                except Exception as e:  # unparsable counterexample: inconclusive
                    res.status = 'unknown'
                    res.message = f'cannot parse counterexample: {msg[:300]} ({e})'
            else:
                res.status = 'unknown'
            em = re.match(r'(\w+):', msg)
            if em and em.group(1) != 'false':
                res.exc = em.group(1)
        else:
            res.message = msg[:300]
    for r in results.values():
        if r.status == 'unknown' and not r.message:
            r.message = ('no verdict line; ' + ' | '.join(other[-2:]))[:400]
    return results


def run(path: Path, names: Optional[Sequence[str]] = None, cond_timeout: float = 60.0, path_timeout: Optional[float] = None,
        procs: int = 0, per_batch: int = 0) -> Dict[str, SxResult]:
    lines = _func_lines(path)
    if names is None:
        names = list(lines)
    env = dict(os.environ)
    env['PYTHONPATH'] = f'{ROOT}:{path.parent}' + (':' + env['PYTHONPATH'] if env.get('PYTHONPATH') else '')
    env['PYTHONHASHSEED'] = '0'
    env['PYTHONDONTWRITEBYTECODE'] = '1'
    procs = procs or ncores()
    if per_batch <= 0:
        per_batch = max(1, min(6, len(names) // (procs * 3) or 1))
    nb = max(1, (len(names) + per_batch - 1) // per_batch)
    batches: List[List[Tuple[str, int]]] = [[] for _ in range(nb)]
    for i, n in enumerate(names):
        batches[i % nb].append((n, lines[n]))
    out: Dict[str, SxResult] = {}
    with ThreadPoolExecutor(max_workers=procs) as ex:
        futs = [ex.submit(_check_batch, path, b, lines, cond_timeout, path_timeout, env) for b in batches if b]
        for f in futs:
            out.update(f.result())
    return out


def write_module(name: str, source: str) -> Path:
    WORK.mkdir(exist_ok=True)
    p = WORK / f'{name}.py'
    p.write_text(source)
    return p


def load_module(path: Path):
    import importlib.util
    spec = importlib.util.spec_from_file_location(path.stem, str(path))
    mod = importlib.util.module_from_spec(spec)
    sys.modules[path.stem] = mod
    spec.loader.exec_module(mod)
    return mod
