"""LX engine: obligations about the LIVE Lark lexer in z3's string/regex theory.

From the Lark object of each parser entry point: every TerminalDef (name, priority, regex), and for every parser state the
contextual lexer's scanner AFTER Lark's own keyword-embedding pass (ordered terminal list = order of the regex alternation,
plus the UnlessCallback tables). Python regexes are translated to z3 Re with sre_parse.

Lark scanner semantics encoded: at a position, the FIRST terminal in scanner order whose regex matches a prefix wins and its own
(greedy) match is taken. A trailing/leading `\\b` is kept as a side condition on the neighbouring character.
"""
from __future__ import annotations

import re
import time
from typing import Any, Dict, List, Optional, Tuple

import z3

try:
    import re._parser as sre_parse  # py >= 3.11
    import re._constants as sre_c
except ImportError:  # pragma: no cover
    import sre_parse
    import sre_constants as sre_c

WORD = z3.Union(z3.Range('a', 'z'), z3.Range('A', 'Z'), z3.Range('0', '9'), z3.Re('_'))
WORD_START = z3.Union(z3.Range('a', 'z'), z3.Range('A', 'Z'), z3.Re('_'))
ANYCHAR = z3.AllChar(z3.ReSort(z3.StringSort()))
SIGMA_STAR = z3.Star(ANYCHAR)
NOT_NEWLINE = z3.Diff(ANYCHAR, z3.Re('\n'))


class Untranslatable(Exception):
    pass


def _cat(*rs):
    rs = [r for r in rs if r is not None]
    if not rs:
        return z3.Re('')
    if len(rs) == 1:
        return rs[0]
    return z3.Concat(*rs)


def _union(rs):
    rs = list(rs)
    if not rs:
        return z3.Empty(z3.ReSort(z3.StringSort()))
    if len(rs) == 1:
        return rs[0]
    return z3.Union(*rs)


def _cls_item(op, av):
    if op is sre_c.LITERAL:
        return z3.Re(chr(av))
    if op is sre_c.RANGE:
        return z3.Range(chr(av[0]), chr(av[1]))
    if op is sre_c.CATEGORY:
        if av is sre_c.CATEGORY_DIGIT:
            return z3.Range('0', '9')
        if av is sre_c.CATEGORY_WORD:
            return WORD
        if av is sre_c.CATEGORY_SPACE:
            return _union([z3.Re(c) for c in ' \t\n\r\f\v'])
        raise Untranslatable(f'category {av}')
    raise Untranslatable(f'class item {op}')


def _tr(seq) -> Any:
    parts = []
    for op, av in seq:
        if op is sre_c.LITERAL:
            parts.append(z3.Re(chr(av)))
        elif op is sre_c.NOT_LITERAL:
            parts.append(z3.Diff(ANYCHAR, z3.Re(chr(av))))
        elif op is sre_c.ANY:
            parts.append(NOT_NEWLINE)
        elif op is sre_c.IN:
            neg = False
            items = []
            for o2, a2 in av:
                if o2 is sre_c.NEGATE:
                    neg = True
                else:
                    items.append(_cls_item(o2, a2))
            u = _union(items)
            parts.append(z3.Diff(ANYCHAR, u) if neg else u)
        elif op is sre_c.BRANCH:
            parts.append(_union([_tr(b) for b in av[1]]))
        elif op is sre_c.SUBPATTERN:
            parts.append(_tr(av[3]))
        elif op in (sre_c.MAX_REPEAT, sre_c.MIN_REPEAT):
            lo, hi, sub = av
            r = _tr(sub)
            if hi is sre_c.MAXREPEAT:
                body = z3.Star(r) if lo == 0 else z3.Plus(r) if lo == 1 else z3.Concat(*([r] * lo), z3.Star(r))
            else:
                body = z3.Loop(r, lo, hi)
            parts.append(body)
        elif op is sre_c.CATEGORY:
            parts.append(_cls_item(op, av))
        else:
            raise Untranslatable(f'regex op {op}')
    return _cat(*parts)


ESCAPED_STRING_RE = None


def escaped_string_re():
    """look-behind-free language of Lark's common.ESCAPED_STRING: '"' ( [^"\\\\\\n] | '\\\\' [^\\n] )* '"'"""
    global ESCAPED_STRING_RE
    if ESCAPED_STRING_RE is None:
        plain = z3.Diff(ANYCHAR, z3.Union(z3.Re('"'), z3.Re('\\'), z3.Re('\n')))
        esc = z3.Concat(z3.Re('\\'), NOT_NEWLINE)
        ESCAPED_STRING_RE = z3.Concat(z3.Re('"'), z3.Star(z3.Union(plain, esc)), z3.Re('"'))
    return ESCAPED_STRING_RE


class Term:
    """a terminal = union of alternatives (body regex, word boundary before?, forbidden-next-character class or None).
    A trailing `\\b` (after a word character) forbids a word character next; a trailing negative lookahead `(?!class)`
    forbids that class next."""

    def __init__(self, name: str, priority: int, regexp: str):
        self.name, self.priority, self.regexp = name, priority, regexp
        self.alts: List[Tuple[Any, bool, Any]] = []
        if name == 'ESCAPED_STRING':
            self.alts = [(escaped_string_re(), False, None)]
            self.approx = True
        else:
            self.approx = False
            for seq in self._alternatives(list(sre_parse.parse(regexp))):
                bb = False
                forbid = None
                if seq and seq[0][0] is sre_c.AT and seq[0][1] is sre_c.AT_BOUNDARY:
                    bb, seq = True, seq[1:]
                if seq and seq[-1][0] is sre_c.AT and seq[-1][1] is sre_c.AT_BOUNDARY:
                    forbid, seq = WORD, seq[:-1]
                elif seq and seq[-1][0] is sre_c.ASSERT_NOT and seq[-1][1][0] == 1:
                    forbid, seq = _tr(list(seq[-1][1][1])), seq[:-1]
                for op, av in _walk(seq):
                    if op in (sre_c.AT, sre_c.ASSERT, sre_c.ASSERT_NOT):
                        raise Untranslatable(f'assertion inside {name}: {regexp}')
                self.alts.append((_tr(seq), bb, forbid))
        self.re = _union([a[0] for a in self.alts])  # language of whole tokens (assertions are about the neighbours)
        self.b_after = all(a[2] is not None for a in self.alts)

    def _alternatives(self, seq) -> List[list]:
        """alternatives of a pattern, expanding a trailing branch/group (sre_parse factors common prefixes out of
        alternations: 'implies\\b|iff\\b' becomes i(?:mplies\\b|ff\\b)), so that each may carry its own trailing assertion"""
        seq = list(seq)
        if not seq:
            return [seq]
        op, av = seq[-1]
        if op is sre_c.BRANCH:
            out = []
            for a in av[1]:
                out.extend(self._alternatives(seq[:-1] + list(a)))
            return out
        if op is sre_c.SUBPATTERN:
            return self._alternatives(seq[:-1] + list(av[3]))
        # a shared trailing assertion after a group: (?:a|b)\b
        if len(seq) >= 2 and (op is sre_c.AT or op is sre_c.ASSERT_NOT) and seq[-2][0] in (sre_c.BRANCH, sre_c.SUBPATTERN):
            return [alt + [seq[-1]] for alt in self._alternatives(seq[:-1])]
        return [seq]

    def prefix_match(self, w):
        """z3 formula: this terminal matches some non-empty prefix of string w (side conditions on the next character included)"""
        alts = []
        for r, bb, forbid in self.alts:
            if forbid is None:
                alts.append(z3.InRe(w, z3.Concat(r, SIGMA_STAR)))
            else:
                alts.append(z3.Or(z3.InRe(w, r), z3.InRe(w, z3.Concat(r, z3.Diff(ANYCHAR, forbid), SIGMA_STAR))))
        return z3.Or(*alts)

    def inner_prefix(self, p, nxt):
        """p is matched by an alternative whose assertion (if any) allows the word character `nxt` to follow"""
        alts = []
        for r, bb, forbid in self.alts:
            if forbid is None:
                alts.append(z3.InRe(p, r))
            else:
                alts.append(z3.And(z3.InRe(p, r), z3.Not(z3.InRe(nxt, forbid))))
        return z3.Or(*alts) if alts else z3.BoolVal(False)


def _walk(seq):
    for op, av in seq:
        yield op, av
        if op is sre_c.BRANCH:
            for b in av[1]:
                yield from _walk(b)
        elif op is sre_c.SUBPATTERN:
            yield from _walk(av[3])
        elif op in (sre_c.MAX_REPEAT, sre_c.MIN_REPEAT):
            yield from _walk(av[2])


class Scanner:
    def __init__(self, state, terms: List[Term], unless: Dict[str, List[Tuple[str, str]]], ignore):
        self.state = state
        self.terms = terms
        self.unless = unless  # regex terminal -> [(string terminal name, value)] retyped by Lark's callback
        self.ignore = ignore

    def key(self):
        return tuple(t.name for t in self.terms)


class LexModel:
    def __init__(self, lark, label: str):
        self.label = label
        self.lark = lark
        lx = lark.parser.lexer
        self.terms: Dict[str, Term] = {}
        for t in lark.terminals:
            self.terms[t.name] = Term(t.name, t.priority, t.pattern.to_regexp())
        self.scanners: List[Scanner] = []
        seen = {}
        for st, bl in lx.lexers.items():
            sc = bl.scanner
            terms = []
            for t in sc.terminals:
                if t.name not in self.terms:
                    self.terms[t.name] = Term(t.name, t.priority, t.pattern.to_regexp())
                terms.append(self.terms[t.name])
            unless = {}
            for k, cb in bl.callback.items():
                if type(cb).__name__ == 'UnlessCallback':
                    unless[k] = [(t.name, t.pattern.value) for t in cb.scanner.terminals]
            s = Scanner(st, terms, unless, set(bl.ignore_types))
            if s.key() not in seen:
                seen[s.key()] = s
                self.scanners.append(s)
        self.states = {st: tuple(t.name for t in bl.scanner.terminals) for st, bl in lx.lexers.items()}


NAME_TERMINALS = ('CNAME', 'CHANNEL_NAME')


def keyword_split_queries(model: LexModel, timeout_ms: int = 10000):
    """LX-1: for every distinct scanner and every terminal T tried before (or instead of) a name terminal:
    is there a word w (letters, digits, underscore; starts with a letter or underscore) that is NOT wholly a token of T
    but whose proper prefix the scanner returns as T?   kind 'a' = a name terminal is acceptable in that state and would
    match all of w; kind 'b' = no name terminal acceptable (the word is cut and the rest lexed separately)."""
    out = []
    w = z3.String('w')
    word = z3.InRe(w, z3.Concat(WORD_START, z3.Star(WORD)))
    for sc in model.scanners:
        names = [t for t in sc.terms if t.name in NAME_TERMINALS]
        for i, T in enumerate(sc.terms):
            if T.name in NAME_TERMINALS or T.name in ('WS', 'NUMBER', 'VAR_REF', 'ESCAPED_STRING'):
                continue
            t0 = time.time()
            s = z3.Solver()
            s.set('timeout', timeout_ms)
            s.add(word)
            s.add(z3.Length(w) <= 12)
            # T matches a proper prefix p of w that ends in a word character, and w continues with a word character
            p = z3.String('p')
            # (alternatives with a trailing \\b cannot end between two word characters)
            nxt = z3.SubString(w, z3.Length(p), 1)
            s.add(z3.PrefixOf(p, w), z3.Length(p) < z3.Length(w), z3.Length(p) > 0, T.inner_prefix(p, nxt))
            for E in sc.terms[:i]:
                s.add(z3.Not(E.prefix_match(w)))
            kind = 'b'
            later_names = [n for n in sc.terms[i + 1:] if n.name in NAME_TERMINALS]
            if later_names:
                kind = 'a'
            r = s.check()
            dt = time.time() - t0
            if r == z3.sat:
                m = s.model()
                out.append((sc, T, kind, 'sat', m.eval(w, model_completion=True).as_string(), m.eval(p, model_completion=True).as_string(), dt))
            elif r == z3.unsat:
                out.append((sc, T, kind, 'unsat', None, None, dt))
            else:
                out.append((sc, T, kind, 'unknown', None, None, dt))
    return out


def finite_language(T: Term, limit: int = 16, timeout_ms: int = 5000) -> Optional[List[str]]:
    """all strings of a terminal with a finite language (None if more than `limit` or undecided)"""
    w = z3.String('w')
    s = z3.Solver()
    s.set('timeout', timeout_ms)
    s.add(z3.InRe(w, T.re))
    out = []
    while True:
        r = s.check()
        if r == z3.unsat:
            return sorted(out)
        if r != z3.sat or len(out) > limit:
            return None
        v = s.model().eval(w, model_completion=True).as_string()
        out.append(v)
        s.add(w != z3.StringVal(v))


def language_equals(T: Term, strings: List[str], timeout_ms: int = 5000) -> Tuple[str, Optional[str]]:
    w = z3.String('w')
    s = z3.Solver()
    s.set('timeout', timeout_ms)
    ref = _union([z3.Re(x) for x in strings])
    s.add(z3.InRe(w, T.re) != z3.InRe(w, ref))
    r = s.check()
    if r == z3.unsat:
        return 'unsat', None
    if r == z3.sat:
        return 'sat', s.model().eval(w, model_completion=True).as_string()
    return 'unknown', None


def validate_translation(model: LexModel, samples: int = 6) -> List[str]:
    """translator validation: z3 members / non-members of every terminal agree with Python's re.fullmatch"""
    problems = []
    w = z3.String('w')
    for T in model.terms.values():
        rx = re.compile(T.regexp)
        for positive in (True, False):
            s = z3.Solver()
            s.set('timeout', 3000)
            s.add(z3.InRe(w, T.re) if positive else z3.Not(z3.InRe(w, T.re)))
            s.add(z3.Length(w) <= 6, z3.Length(w) >= 1)
            if not positive:
                # near misses are more informative than arbitrary strings
                s.add(z3.InRe(w, z3.Concat(z3.Option(T.re), z3.Star(z3.Union(WORD, z3.Re('"'), z3.Re('\\'), z3.Re('.'), z3.Re('='))))))
            for _ in range(samples):
                if s.check() != z3.sat:
                    break
                v = s.model().eval(w, model_completion=True).as_string()
                s.add(w != z3.StringVal(v))
                try:
                    v.encode('ascii')
                except UnicodeEncodeError:
                    continue
                py = rx.fullmatch(v) is not None
                if '\\b' in T.regexp or '(?!' in T.regexp:
                    py = re.fullmatch(re.sub(r'\(\?![^)]*\)', '', T.regexp.replace('\\b', '')), v) is not None
                if py != positive:
                    problems.append(f'{T.name}: z3 says {"member" if positive else "non-member"} for {v!r}, Python re says the opposite')
    return problems
